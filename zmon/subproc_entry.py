"""Entry point for one zorg command in a fresh process (used by
``zmon.db.cli_subprocess``): optional frozen day, optional effect trace dump,
optional failpoint (crash before the k-th external effect, or torn write)."""

from __future__ import annotations

import json
import os
import sys


def run() -> int:
    import warnings

    warnings.filterwarnings("ignore")
    os.environ.setdefault("TQDM_DISABLE", "1")
    today = os.environ.get("ZMON_TODAY") or None
    root = os.environ.get("ZMON_TRACE_ROOT") or None
    crash_at = os.environ.get("ZMON_CRASH_AT") or None
    torn = os.environ.get("ZMON_TORN") or None
    trace_out = os.environ.get("ZMON_TRACE_OUT") or None
    from zorg.app.__main__ import main

    argv = ["zorg"] + sys.argv[1:]
    tracer = None
    if root:
        from zmon.mon.effects import TRACER, install_torn_writer

        tracer = TRACER
        if torn:
            install_torn_writer()
        if crash_at:
            tracer.arm(int(crash_at), float(torn) if torn else None)

    def go() -> int:
        if tracer is not None:
            tracer.start(root)
        try:
            return main(argv)
        finally:
            if tracer is not None and trace_out:
                ev = tracer.stop()
                with open(trace_out, "w") as f:
                    json.dump(ev, f)

    if today:
        from freezegun import freeze_time

        with freeze_time(f"{today}T12:00:00.123456Z"):
            return go()
    return go()

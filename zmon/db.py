"""Driving the real commands and reading the index independently.

* ``cli(zdir, *args)`` runs the repository's real ``main()`` in-process, one
  command at a time, resetting the one piece of cross-command process state
  (the lru-cached SQLAlchemy engine) exactly as a fresh process would have it.
* ``cli_subprocess`` runs the installed entry point in a fresh process.
* ``dump_index`` reads ``.zorg/zorg.db`` with the stdlib ``sqlite3`` module (no
  repository code involved) into canonical per-note records and checks the
  structural invariants of the index at a quiescent point.
"""

from __future__ import annotations

import contextlib
import datetime as dt
import io
import json
import os
import sqlite3
import subprocess
import sys
from pathlib import Path
from typing import Optional

STATUS_KIND = {None: "-", "OPEN_TODO": "o", "CLOSED_TODO": "x", "CANCELED_TODO": "~", "BLOCKED_TODO": "<", "PARENT_TODO": ">"}

_ENGINES: list = []
_patched = False


def _patch_engine_tracking() -> None:
    global _patched
    if _patched:
        return
    import zorg.storage.sql._engine as eng

    orig = eng._create_engine

    def tracking(url, /, **kw):
        e = orig(url, **kw)
        _ENGINES.append(e)
        return e

    eng._create_engine = tracking
    _patched = True


def fresh_process_state() -> None:
    """What a new process would start with: no cached engine, no pooled connection."""
    _patch_engine_tracking()
    import zorg.storage.sql._engine as eng

    while _ENGINES:
        try:
            _ENGINES.pop().dispose()
        except Exception:
            pass
    eng.create_cached_engine.cache_clear()


def db_url(zdir: Path) -> str:
    return f"sqlite:///{zdir}/.zorg/zorg.db"


def write_config(path: Path, **cfg) -> Path:
    """Minimal YAML writer for clack config files (dicts of str / lists of str)."""
    lines = []
    for k, v in cfg.items():
        if isinstance(v, dict) and not v:
            lines.append(f"{k}: {{}}")
        elif isinstance(v, dict):
            lines.append(f"{k}:")
            for kk, vv in v.items():
                if isinstance(vv, (list, tuple)) and not vv:
                    lines.append(f"  {json.dumps(str(kk))}: []")
                elif isinstance(vv, (list, tuple)):
                    lines.append(f"  {json.dumps(str(kk))}:")
                    for x in vv:
                        lines.append(f"    - {json.dumps(str(x))}")
                else:
                    lines.append(f"  {json.dumps(str(kk))}: {json.dumps(str(vv))}")
        elif isinstance(v, (list, tuple)):
            lines.append(f"{k}:")
            for x in v:
                lines.append(f"  - {json.dumps(str(x))}")
        else:
            lines.append(f"{k}: {json.dumps(str(v))}")
    path.write_text("\n".join(lines) + "\n")
    return path


class CliResult:
    __slots__ = ("rc", "out", "err", "exc")

    def __init__(self, rc, out, err="", exc=None):
        self.rc, self.out, self.err, self.exc = rc, out, err, exc

    def __repr__(self):
        return f"CliResult(rc={self.rc}, out={self.out[:200]!r}, exc={self.exc!r})"


def cli(zdir: Path, *args: str, config: Optional[Path] = None) -> CliResult:
    """Runs `zorg --dir ZDIR ARGS…` through the real main() in this process."""
    from zorg.app.__main__ import main as zorg_main

    fresh_process_state()
    argv = ["zorg", "--log=null"]
    if config is not None:
        argv += ["-c", str(config)]
    argv += ["--dir", str(zdir)] + [str(a) for a in args]
    out, err = io.StringIO(), io.StringIO()
    exc = None
    rc = None
    try:
        with contextlib.redirect_stdout(out), contextlib.redirect_stderr(err):
            rc = zorg_main(argv)
    except SystemExit as e:  # argparse
        rc = e.code if isinstance(e.code, int) else 2
    except Exception as e:  # main() catches exceptions itself; anything here is unusual
        exc = e
        rc = 99
    finally:
        fresh_process_state()
    return CliResult(rc, out.getvalue(), err.getvalue(), exc)


def cli_subprocess(zdir: Path, *args: str, config: Optional[Path] = None, today: Optional[dt.date] = None, timeout: float = 120, extra_env: Optional[dict] = None) -> CliResult:
    """One real process per command (the way a user runs zorg)."""
    import zmon

    env = dict(os.environ)
    env["HOME"] = str(zdir.parent)
    env["PYTHONPATH"] = os.path.join(zmon.REPO, "src") + os.pathsep + zmon.VERIF_DIR
    if extra_env:
        env.update(extra_env)
    code = "import sys; from zmon.subproc_entry import run; sys.exit(run())"
    argv = ["--log=null"] + (["-c", str(config)] if config else []) + ["--dir", str(zdir)] + [str(a) for a in args]
    env["ZMON_TODAY"] = today.isoformat() if today else ""
    try:
        p = subprocess.run([sys.executable, "-c", code] + argv, env=env, capture_output=True, text=True, timeout=timeout, cwd=str(zdir.parent))
    except subprocess.TimeoutExpired:
        return CliResult(None, "", "timeout", exc="timeout")
    return CliResult(p.returncode, p.stdout, p.stderr)


# ------------------------------------------------------------------ index dump
class IndexDump:
    def __init__(self):
        self.notes: list[dict] = []
        self.pages: list[dict] = []
        self.problems: list[str] = []  # structural invariant breaches
        self.orphans: dict[str, int] = {}

    def by_zid(self) -> dict:
        return {n["zid"]: n for n in self.notes if n["zid"]}


TAG_TABLES = [("areas", "area", "arealink", "area_id"), ("contexts", "context", "contextlink", "context_id"), ("people", "person", "personlink", "person_id"), ("projects", "project", "projectlink", "project_id"), ("links", "link", "linklink", "link_id")]


def dump_index(zdir: Path) -> IndexDump:
    d = IndexDump()
    path = zdir / ".zorg" / "zorg.db"
    if not path.exists():
        d.problems.append("zorg.db does not exist")
        return d
    con = sqlite3.connect(f"file:{path}?mode=ro", uri=True)
    try:
        cur = con.cursor()
        pages = {r[0]: {"id": r[0], "path": r[1], "has_errors": bool(r[2])} for r in cur.execute("select id, path, has_errors from page")}
        h1 = {r[0]: (r[1], r[2]) for r in cur.execute("select id, title, page_id from h1")}
        h2 = {r[0]: (r[1], r[2]) for r in cur.execute("select id, title, h1_id from h2")}
        h3 = {r[0]: (r[1], r[2]) for r in cur.execute("select id, title, h2_id from h3")}
        h4 = {r[0]: (r[1], r[2]) for r in cur.execute("select id, title, h3_id from h4")}
        blocks = {r[0]: r[1:] for r in cur.execute("select id, h1_id, h2_id, h3_id, h4_id from block")}
        tagmaps: dict = {}
        for attr, tbl, ltbl, col in TAG_TABLES:
            names = {r[0]: r[1] for r in cur.execute(f"select id, name from {tbl}")}
            m: dict = {}
            used = set()
            for nid, tid in cur.execute(f"select note_id, {col} from {ltbl}"):
                if tid not in names:
                    d.problems.append(f"{ltbl} row points to missing {tbl} id {tid}")
                    continue
                used.add(tid)
                m.setdefault(nid, []).append(names[tid])
            tagmaps[attr] = m
            d.orphans[tbl] = len(set(names) - used)
        pnames = {r[0]: r[1] for r in cur.execute("select id, name from property")}
        props: dict = {}
        for nid, pid, val in cur.execute("select note_id, prop_id, value from propertylink"):
            if pid not in pnames:
                d.problems.append(f"propertylink row points to missing property id {pid}")
                continue
            props.setdefault(nid, {})[pnames[pid]] = val

        def chain(bid):
            """-> (page id, section title path, section key) or None"""
            b = blocks.get(bid)
            if b is None:
                return None
            parents = [(lvl, x) for lvl, x in zip((1, 2, 3, 4), b) if x is not None]
            if len(parents) != 1:
                return None
            lvl, sid = parents[0]
            titles = []
            try:
                if lvl == 4:
                    t, sid3 = h4[sid]
                    titles.append(t)
                    lvl, sid_ = 3, sid3
                else:
                    sid_ = sid
                if lvl == 3:
                    t, sid2 = h3[sid_]
                    titles.append(t)
                    lvl, sid_ = 2, sid2
                if lvl == 2:
                    t, sid1 = h2[sid_]
                    titles.append(t)
                    lvl, sid_ = 1, sid1
                t, pid = h1[sid_]
                titles.append(t)
            except KeyError:
                return None
            titles.reverse()
            if titles and titles[0] == "":
                titles = titles[1:]
            return pid, tuple(titles), parents[0]

        # block identity is compared as the set of note lines sharing the block
        # (row ids carry no order guarantee)
        mates: dict = {}
        for bid_, line_ in cur.execute("select block_id, line_no from note"):
            mates.setdefault(bid_, []).append(line_)
        note_ids = set()
        for r in cur.execute("select id, body, line_no, zid, create_date, modify_date, todo_priority, todo_status, block_id, page_path from note order by id"):
            nid, body, line_no, zid, cd, md, prio, status, bid, page_path = r
            note_ids.add(nid)
            c = chain(bid)
            rec = {
                "id": nid,
                "page": page_path,
                "line": line_no,
                "zid": zid,
                "kind": STATUS_KIND.get(status, f"?{status}"),
                "priority": prio,
                "body": body,
                "create": cd,
                "modify": md,
                "props": props.get(nid, {}),
                "section": None,
                "block_ord": None,
            }
            for attr, *_ in TAG_TABLES:
                rec[attr] = sorted(tagmaps[attr].get(nid, []))
            if c is None:
                d.problems.append(f"note id={nid} zid={zid}: block {bid} has no unique section chain to a page")
            else:
                pid, titles, seckey = c
                rec["section"] = titles
                rec["block_ord"] = sorted(mates.get(bid, []))
                pg = pages.get(pid)
                if pg is None:
                    d.problems.append(f"note id={nid} zid={zid}: section chain ends at missing page id {pid}")
                elif pg["path"] != page_path:
                    d.problems.append(f"note id={nid} zid={zid}: page_path {page_path!r} != owning page row {pg['path']!r}")
            d.notes.append(rec)
        for attr, tbl, ltbl, col in TAG_TABLES:
            for nid in tagmaps[attr]:
                if nid not in note_ids:
                    d.problems.append(f"{ltbl} row for missing note id {nid}")
        for nid in props:
            if nid not in note_ids:
                d.problems.append(f"propertylink row for missing note id {nid}")
        d.pages = sorted(pages.values(), key=lambda p: p["path"])
        paths = [p["path"] for p in d.pages]
        for p in set(paths):
            if paths.count(p) > 1:
                d.problems.append(f"page {p!r} has {paths.count(p)} rows")
    finally:
        con.close()
    return d


NOTE_KEYS = ("page", "line", "zid", "kind", "priority", "body", "create", "modify", "areas", "contexts", "people", "projects", "links", "props", "section", "block_ord")


def canon(rec: dict, keys=NOTE_KEYS) -> tuple:
    return tuple((k, json.dumps(rec.get(k), sort_keys=True, default=str)) for k in keys)


def note_to_rec(note, zdir: Path, section=None, block_ord=None) -> dict:
    """Canonical record of a *domain* note (compiled or fetched through the repo)."""
    from zmon.ref.pagecheck import note_kind

    page = str(note.file_path)
    pre = str(zdir) + "/"
    if page.startswith(pre):
        page = page[len(pre) :]
    return {
        "page": page,
        "line": note.line_no,
        "zid": note.zid,
        "kind": note_kind(note),
        "priority": note.todo_payload.priority if note.todo_payload else None,
        "body": note.body,
        "create": note.create_date.isoformat(),
        "modify": note.modify_date.isoformat(),
        "areas": sorted(note.areas),
        "contexts": sorted(note.contexts),
        "people": sorted(note.people),
        "projects": sorted(note.projects),
        "links": sorted(note.links),
        "props": dict(note.properties),
        "section": section,
        "block_ord": block_ord,
    }


def page_recs(page, zdir: Path) -> list[dict]:
    """Canonical records of all notes of a compiled domain Page incl. section path and block ordinal."""
    out = []

    def blocks(sec, titles):
        for b in sec.blocks:
            lines = sorted(n.line_no for n in b.notes)
            for n in b.notes:
                out.append(note_to_rec(n, zdir, tuple(titles), lines))

    h1s = ([page.h0] if page.h0 else []) + list(page.h1s)
    # same traversal order as the repository flattens notes: all blocks of h1, then its h2s …
    ordered = []
    for h1 in h1s:
        t1 = [h1.title] if h1.title else []
        ordered.append((h1, t1))
        for h2 in h1.h2s:
            ordered.append((h2, t1 + [h2.title]))
            for h3 in h2.h3s:
                ordered.append((h3, t1 + [h2.title, h3.title]))
                for h4 in h3.h4s:
                    ordered.append((h4, t1 + [h2.title, h3.title, h4.title]))
    for sec, titles in ordered:
        blocks(sec, titles)
    return out

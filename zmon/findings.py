"""Known findings: read-only access to /verif/KNOWN_FINDINGS.json.

The file is committed and never written at run time.  An entry with
``status: "open"`` lets a violation *that a check's classifier attributes to
exactly that mechanism* be reported as ``KNOWN-FINDING`` instead of
``VIOLATION``; an entry with ``status: "fixed"`` suppresses nothing.
"""

from __future__ import annotations

import json
import os

from . import VERIF_DIR

PATH = os.path.join(VERIF_DIR, "KNOWN_FINDINGS.json")


def load_all() -> list[dict]:
    if not os.path.exists(PATH):
        return []
    with open(PATH) as f:
        return json.load(f).get("findings", [])


def load_open(pid: str) -> dict[str, dict]:
    return {e["id"]: e for e in load_all() if e.get("status") == "open" and pid in e.get("properties", [e.get("property")])}

"""Accumulator for what one work unit observed."""

from __future__ import annotations

import random


class Acc:
    def __init__(self) -> None:
        self.evaluations = 0
        self.judged = 0
        self.not_judged = 0
        self.generator_invalid = 0
        self.signatures: set[str] = set()
        self.samples: list = []
        self.violations: list[dict] = []
        self.counters: dict[str, int] = {}
        self.inconclusive: list[str] = []
        self.exhaustive_dims: dict[str, int] = {}

    def count(self, name: str, n: int = 1) -> None:
        self.counters[name] = self.counters.get(name, 0) + n

    def sig(self, s) -> None:
        self.signatures.add(s if isinstance(s, str) else repr(s))

    def sample(self, s, cap: int = 3) -> None:
        if len(self.samples) < cap:
            self.samples.append(s)

    def violation(self, summary: str, case: dict, *, cls: str | None = None, finding: str | None = None, detail=None) -> None:
        self.violations.append(
            {
                "summary": summary[:2000],
                "class": cls or summary[:80],
                "finding": finding,
                "detail": detail,
                "case": case,
            }
        )

    def merge_counts(self, d: dict[str, int]) -> None:
        for k, v in d.items():
            self.count(k, v)

    def result(self) -> dict:
        return {
            "evaluations": self.evaluations,
            "judged": self.judged,
            "not_judged": self.not_judged,
            "generator_invalid": self.generator_invalid,
            "signatures": sorted(self.signatures),
            "samples": self.samples,
            "violations": self.violations,
            "counters": self.counters,
            "inconclusive": self.inconclusive,
            "exhaustive_dims": self.exhaustive_dims,
        }


def rng_for(pid: str, seed: int, index) -> random.Random:
    return random.Random(f"{pid}:{seed}:{index}")

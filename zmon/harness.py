"""Shared harness pieces: scratch dirs, compiling a text through the real
``walk_zorg_page`` with the injected listeners, entry counters."""

from __future__ import annotations

import os
import shutil
import sys
import tempfile
from pathlib import Path

from zmon.mon import listeners

_SCRATCH = None


def scratch() -> Path:
    global _SCRATCH
    if _SCRATCH is None:
        base = os.environ.get("VERIF_WORKDIR")
        if not base:
            root = "/dev/shm" if os.path.isdir("/dev/shm") and os.access("/dev/shm", os.W_OK) else tempfile.gettempdir()
            base = tempfile.mkdtemp(prefix="zmon-", dir=root)
            import atexit

            atexit.register(shutil.rmtree, base, ignore_errors=True)
        _SCRATCH = Path(base)
    return _SCRATCH


def fresh_dir(name: str = "case") -> Path:
    d = scratch() / name
    if d.exists():
        shutil.rmtree(d)
    d.mkdir(parents=True)
    return d


class Compiled:
    __slots__ = ("page", "parser_errors", "lexer_errors", "exc")

    def __init__(self, page, pe, le, exc):
        self.page, self.parser_errors, self.lexer_errors, self.exc = page, pe, le, exc


def compile_text(text, name: str = "t.zo", zdir: Path | None = None, verbose: bool = False) -> Compiled:
    """Writes *text* (str or bytes) and compiles it with the real compiler."""
    import zorg.service.compiler._api as api

    listeners.install()
    zdir = zdir or (scratch() / "compile")
    zdir.mkdir(parents=True, exist_ok=True)
    p = zdir / name
    p.parent.mkdir(parents=True, exist_ok=True)
    if isinstance(text, bytes):
        p.write_bytes(text)
    else:
        p.write_text(text)
    return compile_path(zdir, Path(name), verbose=verbose)


def compile_path(zdir: Path, rel: Path, verbose: bool = False) -> Compiled:
    import zorg.service.compiler._api as api

    listeners.install()
    listeners.FILE.reset()
    page = None
    exc = None
    try:
        page = api.walk_zorg_page(zdir, rel, verbose=verbose)
    except Exception as e:  # the monitor records, the oracle decides
        exc = e
    return Compiled(page, list(listeners.FILE.parser_errors), list(listeners.FILE.lexer_errors), exc)


# ------------------------------------------------------------------ entry counters
class EntryCounters:
    """Counts entries into chosen functions with sys.monitoring (PY_START)."""

    TOOL = 3

    def __init__(self) -> None:
        self.counts: dict[str, int] = {}
        self._codes: dict = {}
        self._on = False

    def watch_attr(self, owner, attr: str, name: str | None = None) -> None:
        """Watches owner.attr if it exists; a renamed/removed internal function must
        not kill the check (its counter requirement is then waived, see main._report)."""
        fn = getattr(owner, attr, None)
        if fn is None:
            self.counts["__missing__." + (name or attr)] = 1
            return
        self.watch(name or attr, getattr(fn, "__wrapped__", fn))

    def watch(self, name: str, fn) -> None:
        code = getattr(fn, "__code__", None)
        if code is None and hasattr(fn, "__func__"):
            code = fn.__func__.__code__
        if code is None and hasattr(fn, "__wrapped__"):
            code = fn.__wrapped__.__code__
        if code is None:
            return
        mon = sys.monitoring
        if not self._on:
            try:
                mon.use_tool_id(self.TOOL, "zmon")
            except ValueError:
                pass
            mon.register_callback(self.TOOL, mon.events.PY_START, self._cb)
            self._on = True
        self._codes[code] = name
        self.counts.setdefault(name, 0)
        mon.set_local_events(self.TOOL, code, mon.events.PY_START)

    def _cb(self, code, offset):
        n = self._codes.get(code)
        if n is not None:
            self.counts[n] += 1

    def take(self) -> dict[str, int]:
        out = {}
        for k, v in self.counts.items():
            if k.startswith("__missing__."):
                out["missing." + k[len("__missing__.") :]] = v
            else:
                out[f"enter.{k}"] = v
                self.counts[k] = 0
        return out


COUNTERS = EntryCounters()

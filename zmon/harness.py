"""Shared harness pieces: scratch dirs, compiling a text through the real
``walk_zorg_page`` with the injected listeners, entry counters."""

from __future__ import annotations

import os
import shutil
import sys
import tempfile
from pathlib import Path

from zmon.mon import listeners

_SCRATCH = None


def scratch() -> Path:
    global _SCRATCH
    if _SCRATCH is None:
        base = os.environ.get("VERIF_WORKDIR")
        if not base:
            root = "/dev/shm" if os.path.isdir("/dev/shm") and os.access("/dev/shm", os.W_OK) else tempfile.gettempdir()
            base = tempfile.mkdtemp(prefix="zmon-", dir=root)
            import atexit

            atexit.register(shutil.rmtree, base, ignore_errors=True)
        _SCRATCH = Path(base)
    return _SCRATCH


def fresh_dir(name: str = "case") -> Path:
    d = scratch() / name
    if d.exists():
        shutil.rmtree(d)
    d.mkdir(parents=True)
    return d


def notes_root(name: str, idx: int) -> Path:
    """A fresh, existing notes directory <scratch>/<name>/org whose SPELLING varies with idx: most are canonical
    absolute paths; idx % 8 == 3 is reached through a symlink (org -> real_notes) and idx % 8 == 7 through a '..'
    component.  A command must behave the same however its --dir is spelled."""
    base = fresh_dir(name)
    v = idx % 8
    if v == 3:
        (base / "real_notes").mkdir()
        (base / "org").symlink_to(base / "real_notes", target_is_directory=True)
        return base / "org"
    if v == 7:
        (base / "x").mkdir()
        (base / "org").mkdir()
        return base / "x" / ".." / "org"
    (base / "org").mkdir()
    return base / "org"


class Compiled:
    __slots__ = ("page", "parser_errors", "lexer_errors", "exc")

    def __init__(self, page, pe, le, exc):
        self.page, self.parser_errors, self.lexer_errors, self.exc = page, pe, le, exc


# Pages compiled BEFORE a judged page in the same process: the result of compiling a page must not depend on what the
# process compiled earlier (module- / class-level state, caches). Each primer leaves another kind of state behind.
PRIMERS = [
    None,
    # flat page: tagged, dated title line with a property, notes directly below, no section ever closes
    "# Primer #parea @pctx %pwho +pprj [[plink]] pk::pv 2019-09-09\n\n- 190909#Pa primed note #na pn::1\no P1 190909#Pb todo +np\n",
    # ends inside H1>H2>H3>H4, metadata and a date at every level
    "# Primer\n\n################################ A #h1a h1k::1 2018-01-01\n======================== B @h2c h2k::2 2018-02-02\n++++++++++++++++ C %h3p h3k::3 2018-03-03\n-------- D +h4p h4k::4 [[h4link]] 2018-04-04\n- 180404#Pc deep note\n",
    # last item: cancelled todo with priority, modify date, ZID, bullet property and tags
    "# Primer\n\n~ P7 190101 181231#Pd last item #lt @lc [lk:: two words]\n  * bp:: bullet value\n",
    # a page with a syntax error in the middle of a section
    "# Primer #perr\n\n################################ S #serr sk::1\n- 180101#Pe fine\nthis line has no prefix\n- 180102#Pf after the error +late\n",
    # header block with several lines, in-block comment last
    "# Primer @hc\n# second line #h2nd hk2::x\n\n- 180505#Pg note\n# in-block comment #cmt ck::1 [[clink]]\n",
]


def prime(k: int) -> None:
    """Compiles primer page k (mod len) with the real compiler; its result is not judged."""
    t = PRIMERS[k % len(PRIMERS)]
    if t is not None:
        compile_text(t, name="primer.zo")
        COUNTERS_PRIMED[0] += 1


COUNTERS_PRIMED = [0]


def compile_text(text, name: str = "t.zo", zdir: Path | None = None, verbose: bool = False) -> Compiled:
    """Writes *text* (str or bytes) and compiles it with the real compiler."""
    import zorg.service.compiler._api as api

    listeners.install()
    zdir = zdir or (scratch() / "compile")
    zdir.mkdir(parents=True, exist_ok=True)
    p = zdir / name
    p.parent.mkdir(parents=True, exist_ok=True)
    if isinstance(text, bytes):
        p.write_bytes(text)
    else:
        p.write_text(text)
    return compile_path(zdir, Path(name), verbose=verbose)


def compile_path(zdir: Path, rel: Path, verbose: bool = False) -> Compiled:
    import zorg.service.compiler._api as api

    listeners.install()
    listeners.FILE.reset()
    page = None
    exc = None
    try:
        page = api.walk_zorg_page(zdir, rel, verbose=verbose)
    except Exception as e:  # the monitor records, the oracle decides
        exc = e
    return Compiled(page, list(listeners.FILE.parser_errors), list(listeners.FILE.lexer_errors), exc)


# ------------------------------------------------------------------ entry counters
class EntryCounters:
    """Counts entries into chosen functions with sys.monitoring (PY_START)."""

    TOOL = 3

    def __init__(self) -> None:
        self.counts: dict[str, int] = {}
        self._codes: dict = {}
        self._on = False

    def watch_attr(self, owner, attr: str, name: str | None = None) -> None:
        """Watches owner.attr if it exists; a renamed/removed internal function must
        not kill the check (its counter requirement is then waived, see main._report)."""
        fn = getattr(owner, attr, None)
        if fn is None:
            self.counts["__missing__." + (name or attr)] = 1
            return
        self.watch(name or attr, getattr(fn, "__wrapped__", fn))

    def watch(self, name: str, fn) -> None:
        code = getattr(fn, "__code__", None)
        if code is None and hasattr(fn, "__func__"):
            code = fn.__func__.__code__
        if code is None and hasattr(fn, "__wrapped__"):
            code = fn.__wrapped__.__code__
        if code is None:
            return
        mon = sys.monitoring
        if not self._on:
            try:
                mon.use_tool_id(self.TOOL, "zmon")
            except ValueError:
                pass
            mon.register_callback(self.TOOL, mon.events.PY_START, self._cb)
            self._on = True
        self._codes[code] = name
        self.counts.setdefault(name, 0)
        mon.set_local_events(self.TOOL, code, mon.events.PY_START)

    def _cb(self, code, offset):
        n = self._codes.get(code)
        if n is not None:
            self.counts[n] += 1

    def take(self) -> dict[str, int]:
        out = {}
        for k, v in self.counts.items():
            if k.startswith("__missing__."):
                out["missing." + k[len("__missing__.") :]] = v
            else:
                out[f"enter.{k}"] = v
                self.counts[k] = 0
        return out


COUNTERS = EntryCounters()

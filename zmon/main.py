"""Orchestrator:  ./check <ID> <quick|thorough>  |  ./check <ID> --replay <path>.

Plans work units for one property, shards them over worker *subprocesses*
(``subprocess`` per shard with a watchdog — never multiprocessing.Pool, which
hangs when a child dies), merges what the monitors observed, classifies every
violation against the committed KNOWN_FINDINGS.json, writes
``evidence/<ID>.json`` and replay files and sets the exit status:

  0  held on everything explored (known findings are printed, never hidden)
  1  at least one violation that no *open* known finding explains
  2  inconclusive (watchdog, dead worker, deciding monitor never reached …)
"""

from __future__ import annotations

import hashlib
import importlib
import json
import os
import shutil
import subprocess
import sys
import tempfile
import time

from . import VERIF_DIR
from . import findings as kf


def _scratch_root() -> str:
    base = os.environ.get("VERIF_TMP") or (
        "/dev/shm" if os.path.isdir("/dev/shm") and os.access("/dev/shm", os.W_OK) else tempfile.gettempdir()
    )
    return base


def _merge(results: list[dict]) -> dict:
    agg: dict = {
        "evaluations": 0,
        "judged": 0,
        "not_judged": 0,
        "generator_invalid": 0,
        "signatures": set(),
        "samples": [],
        "violations": [],
        "counters": {},
        "inconclusive": [],
        "exhaustive_dims": {},
    }
    for r in results:
        agg["evaluations"] += r.get("evaluations", 0)
        agg["judged"] += r.get("judged", 0)
        agg["not_judged"] += r.get("not_judged", 0)
        agg["generator_invalid"] += r.get("generator_invalid", 0)
        agg["signatures"].update(r.get("signatures", []))
        for s in r.get("samples", []):
            if len(agg["samples"]) < 6:
                agg["samples"].append(s)
        agg["violations"].extend(r.get("violations", []))
        for k, v in r.get("counters", {}).items():
            agg["counters"][k] = agg["counters"].get(k, 0) + v
        agg["inconclusive"].extend(r.get("inconclusive", []))
        for k, v in r.get("exhaustive_dims", {}).items():
            agg["exhaustive_dims"][k] = agg["exhaustive_dims"].get(k, 0) + v
    return agg


def _run_workers(pid: str, units: list[dict], jobs: int, timeout: float, seed: int, tier: str) -> tuple[list[dict], list[str]]:
    """Shard *units* over worker subprocesses; returns (unit results, problems)."""
    jobs = max(1, min(jobs, len(units)))
    shards: list[list[dict]] = [[] for _ in range(jobs)]
    for i, u in enumerate(units):
        shards[i % jobs].append(u)
    root = tempfile.mkdtemp(prefix=f"zmon-{pid}-", dir=_scratch_root())
    procs = []
    env = dict(os.environ)
    env["VERIF_SEED"] = str(seed)
    env["VERIF_TIER"] = tier
    env["VERIF_SCRATCH"] = root
    try:
        for k, shard in enumerate(shards):
            uf = os.path.join(root, f"units_{k}.json")
            of = os.path.join(root, f"out_{k}.jsonl")
            with open(uf, "w") as f:
                json.dump(shard, f)
            wdir = os.path.join(root, f"w{k}")
            os.mkdir(wdir)
            wenv = dict(env)
            wenv["VERIF_WORKDIR"] = wdir
            wenv["TMPDIR"] = wdir
            log = open(os.path.join(root, f"log_{k}.txt"), "w")
            p = subprocess.Popen(
                [sys.executable, "-m", "zmon.worker", pid, uf, of],
                env=wenv,
                stdout=log,
                stderr=subprocess.STDOUT,
                cwd=VERIF_DIR,
            )
            procs.append((k, p, of, log, len(shard)))
        problems: list[str] = []
        results: list[dict] = []
        deadline = time.time() + timeout
        for k, p, of, log, n in procs:
            try:
                rc = p.wait(timeout=max(1.0, deadline - time.time()))
            except subprocess.TimeoutExpired:
                p.kill()
                p.wait()
                rc = None
                problems.append(f"worker {k} hit the watchdog ({timeout:.0f}s)")
            log.close()
            got = 0
            if os.path.exists(of):
                with open(of) as f:
                    for line in f:
                        line = line.strip()
                        if line:
                            try:
                                results.append(json.loads(line))
                                got += 1
                            except ValueError:
                                problems.append(f"worker {k}: truncated result line")
            if rc not in (0, None):
                tail = ""
                try:
                    with open(os.path.join(root, f"log_{k}.txt")) as f:
                        tail = f.read()[-1500:]
                except OSError:
                    pass
                problems.append(f"worker {k} died rc={rc}: {tail}")
            elif rc == 0 and got != n:
                problems.append(f"worker {k} returned {got}/{n} unit results")
        return results, problems
    finally:
        shutil.rmtree(root, ignore_errors=True)


def _write_replay(pid: str, v: dict) -> str:
    d = os.path.join(_replay_root(), pid)
    os.makedirs(d, exist_ok=True)
    blob = json.dumps(v, sort_keys=True, default=str)
    name = hashlib.sha1(blob.encode()).hexdigest()[:12] + ".json"
    path = os.path.join(d, name)
    with open(path, "w") as f:
        json.dump(v, f, indent=1, sort_keys=True, default=str)
    return path


def _replay_root() -> str:
    # mutation self-tests (tools/mut.sh) must not touch /verif/replays or evidence
    if os.environ.get("VERIF_NO_EVIDENCE"):
        return os.environ.get("VERIF_REPLAY_DIR") or os.path.join(tempfile.gettempdir(), "zmon-mut-replays")
    return os.path.join(VERIF_DIR, "replays")


def _clean_replays(pid: str) -> None:
    d = os.path.join(_replay_root(), pid)
    if os.path.isdir(d):
        for n in os.listdir(d):
            if n.endswith(".json"):
                try:
                    os.unlink(os.path.join(d, n))
                except OSError:
                    pass


def _report(pid: str, mod, agg: dict, problems: list[str], tier: str, seed: int, wall: float, write_evidence: bool = True) -> int:
    known = kf.load_open(pid)
    seen_known: dict[str, int] = {}
    fresh: list[dict] = []
    for v in agg["violations"]:
        fid = v.get("finding")
        if fid and fid in known:
            seen_known[fid] = seen_known.get(fid, 0) + 1
        else:
            fresh.append(v)
    # dedupe fresh violations by (finding/mechanism, summary-class)
    out_lines: list[str] = []
    replay_paths: list[str] = []
    seen_cls: dict[str, int] = {}
    for v in fresh:
        cls = v.get("class") or v.get("summary", "")[:80]
        seen_cls[cls] = seen_cls.get(cls, 0) + 1
        if seen_cls[cls] <= 3 and len(replay_paths) < 12:
            replay_paths.append(_write_replay(pid, v))
    for fid, n in sorted(seen_known.items()):
        out_lines.append(f"KNOWN-FINDING: property={pid} {fid}: {known[fid]['what']} (observed {n}x this run)")
    for fid in sorted(known):
        if fid not in seen_known:
            # a listed finding that this run did not reproduce is still announced
            # (so the line is stable), flagged as not observed.
            out_lines.append(f"KNOWN-FINDING: property={pid} {fid}: {known[fid]['what']} (not triggered by this run's workload)")

    inconclusive = list(problems) + list(agg["inconclusive"])
    floor = getattr(mod, "MIN_JUDGED", {}).get(tier, 1)
    if agg["judged"] < floor:
        inconclusive.append(f"only {agg['judged']} judged executions (< floor {floor})")
    for name in getattr(mod, "REQUIRED_COUNTERS", []):
        if agg["counters"].get("missing." + name.removeprefix("enter."), 0) > 0 or agg["counters"].get("missing." + name, 0) > 0:
            continue  # the watched internal function no longer exists under that name
        if agg["counters"].get(name, 0) <= 0:
            inconclusive.append(f"deciding monitor/counter '{name}' was never reached")
    if agg["evaluations"] and agg["generator_invalid"] > getattr(mod, "MAX_INVALID_FRAC", 0.05) * agg["evaluations"]:
        inconclusive.append(f"generator validity floor missed: {agg['generator_invalid']}/{agg['evaluations']} generated cases rejected")

    if write_evidence and not os.environ.get("VERIF_NO_EVIDENCE"):
        ev = {
            "property_id": pid,
            "tier": tier,
            "seed": seed,
            "level": getattr(mod, "LEVEL", "exploration"),
            "coverage": {
                "evaluations": agg["evaluations"],
                "distinct_nontrivial": len(agg["signatures"]),
                "rule": getattr(mod, "RULE", ""),
                "samples": agg["samples"][:6],
                "judged": agg["judged"],
                "not_judged": agg["not_judged"],
                "generator_invalid": agg["generator_invalid"],
                "monitor_counters": dict(sorted(agg["counters"].items())),
                "known_findings_seen": seen_known,
                "fresh_violation_classes": seen_cls,
                "inconclusive": inconclusive[:10],
            },
            "assumptions": getattr(mod, "ASSUMPTIONS", []),
            "wall_s": round(wall, 2),
            "violations": len(fresh),
        }
        if agg["exhaustive_dims"]:
            ev["coverage"]["exhaustive"] = True
            ev["coverage"]["exhaustive_dimensions"] = agg["exhaustive_dims"]
        os.makedirs(os.path.join(VERIF_DIR, "evidence"), exist_ok=True)
        with open(os.path.join(VERIF_DIR, "evidence", f"{pid}.json"), "w") as f:
            json.dump(ev, f, indent=1, sort_keys=True, default=str)

    for line in out_lines:
        print(line)
    print(
        f"[{pid}] tier={tier} seed={seed} evaluations={agg['evaluations']} judged={agg['judged']} "
        f"not_judged={agg['not_judged']} generator_invalid={agg['generator_invalid']} "
        f"distinct={len(agg['signatures'])} known={sum(seen_known.values())} fresh_violations={len(fresh)} wall={wall:.1f}s"
    )
    cs = ", ".join(f"{k}={v}" for k, v in sorted(agg["counters"].items()))
    if cs:
        print(f"[{pid}] monitor counters: {cs}")
    if fresh:
        for cls, n in sorted(seen_cls.items(), key=lambda kv: -kv[1])[:15]:
            print(f"[{pid}] violation class ({n}x): {cls}")
        for p in replay_paths:
            print(f"VIOLATION property={pid} replay={p}")
        return 1
    if inconclusive:
        for r in inconclusive[:10]:
            print(f"INCONCLUSIVE property={pid} reason={r}")
        return 2
    print(f"[{pid}] HELD on everything explored")
    return 0


def main(argv: list[str]) -> int:
    if len(argv) < 2:
        print("usage: check <ID> <quick|thorough> | check <ID> --replay <path>")
        return 2
    pid = argv[0].upper()
    mod = importlib.import_module(f"zmon.props.{pid.lower()}")
    seed = int(os.environ.get("VERIF_SEED", "0") or 0)
    jobs = int(os.environ.get("VERIF_JOBS", "16") or 16)
    t0 = time.time()
    if argv[1] == "--replay":
        path = argv[2]
        with open(path) as f:
            v = json.load(f)
        from . import worker

        worker.prepare(mod)
        res = mod.replay(v["case"])
        agg = _merge([res])
        agg["judged"] = max(agg["judged"], 1)
        return _report(pid, _NoFloors(mod), agg, [], "quick", seed, time.time() - t0, write_evidence=False)
    tier = argv[1]
    if tier not in ("quick", "thorough"):
        print("tier must be quick or thorough")
        return 2
    _clean_replays(pid)
    units = mod.plan(tier, seed)
    timeout = getattr(mod, "WATCHDOG", {}).get(tier, 1800 if tier == "quick" else 14400)
    results, problems = _run_workers(pid, units, jobs, timeout, seed, tier)
    agg = _merge(results)
    return _report(pid, mod, agg, problems, tier, seed, time.time() - t0)


class _NoFloors:
    """Module proxy used for replays: no coverage floors apply to one case."""

    def __init__(self, mod):
        self._m = mod

    def __getattr__(self, name):
        if name in ("MIN_JUDGED", "REQUIRED_COUNTERS"):
            raise AttributeError(name)
        return getattr(self._m, name)


if __name__ == "__main__":
    sys.exit(main(sys.argv[1:]))

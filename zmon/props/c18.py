"""C18 — file-group expansion flattens groups in place and in order.

Monitor: icontract post-condition on the real ``expand_file_group_paths``
(bound at the module attribute, so the mutual recursion through
``_paths_from_file_group`` is checked at every nesting level) plus a boundary
recorder; oracle: an independent reference flattening with regex-based date
substitution (no ``str.format``) under a frozen clock; model-free law:
expand(a + b) == expand(a) + expand(b).
"""

from __future__ import annotations

import datetime as dt
import itertools
import os
import re
from pathlib import Path

from zmon import harness
from zmon.mon import contracts
from zmon.mon.clock import frozen
from zmon.res import Acc, rng_for

ID = "C18"
LEVEL = "exploration"
RULE = (
    "small scope: ALL acyclic maps with <=3 groups, <=2 members each over the alphabet {plain path, dated pattern, "
    "@later-group...} x ALL argument lists of length <=2 over {@g0,@g1,@g2,plain path}; plus seeded random maps "
    "(depth<=5, shared sub-groups, 0-4 members, every date pattern form) under a sweep of frozen days incl. month/"
    "year/leap boundaries. distinct = distinct (map shape, argument list shape, day) signatures whose expansion "
    "involved at least one group (non-trivial)."
)
ASSUMPTIONS = [
    "freezegun controls datetime.now() as seen by the repository (same mechanism the repo's tests rely on)",
    "acyclic maps only (the statement quantifies over acyclic configurations)",
]
REQUIRED_COUNTERS = ["contract_evals.expand_file_group_paths", "enter.expand_file_group_paths", "edit.judged"]
MIN_JUDGED = {"quick": 2000, "thorough": 50000}

DAYS = [
    dt.date(2031, 3, 14),
    dt.date(2024, 3, 1),   # previous days cross Feb 29
    dt.date(2025, 1, 3),   # crosses a year boundary
    dt.date(2023, 3, 2),   # crosses Feb 28 (non-leap)
    dt.date(2024, 12, 31),
    dt.date(2000, 1, 1),
    dt.date(2026, 11, 5),
]

_PAT_Y = re.compile(r"\{yyyymmdd\[(\d+)\]\}")
_PAT_D = re.compile(r"\{days\[(\d+)\](?:\.(year|month|day))?(?::([^}]*))?\}")


class NoSuchGroup(Exception):
    pass


def ref_subst(pattern: str, today: dt.date) -> str:
    """Reference substitution of today's and the previous six days' dates."""

    def day(i: int) -> dt.date:
        if not 0 <= i <= 6:
            raise IndexError(i)
        return today - dt.timedelta(days=i)

    def y(m):
        d = day(int(m.group(1)))
        return "%04d%02d%02d" % (d.year, d.month, d.day)

    def dd(m):
        d = day(int(m.group(1)))
        if m.group(2):
            return str(getattr(d, m.group(2)))
        if m.group(3):
            return d.strftime(m.group(3))
        raise ValueError("bare {days[i]} is not generated")

    return _PAT_D.sub(dd, _PAT_Y.sub(y, pattern))


def ref_expand(args, gmap, today: dt.date) -> list[Path]:
    out: list[Path] = []
    for a in args:
        s = str(a)
        if s.startswith("@"):
            if s[1:] not in gmap:
                raise NoSuchGroup(s)
            for member in gmap[s[1:]]:
                if member.startswith("@"):
                    out.extend(ref_expand([member], gmap, today))
                else:
                    out.append(Path(ref_subst(member, today)))
        else:
            out.append(Path(a))
    return out


_STATE = {"today": None, "entered": 0}


def setup_worker() -> None:
    import zorg.service.file_groups as fg

    orig = fg.expand_file_group_paths  # the property's own observation point (public API)
    if contracts.AVAILABLE:
        ic = contracts.icontract

        def expansion_matches_reference(zo_paths, file_group_map, result):
            contracts.bump("contract_evals.expand_file_group_paths")
            today = _STATE["today"]
            if today is None:
                return True
            try:
                exp = ref_expand(list(zo_paths), file_group_map, today)
            except (NoSuchGroup, IndexError):
                return True  # outside the statement (unknown group / day index)
            return list(result) == exp

        wrapped = ic.ensure(expansion_matches_reference, error=contracts.ContractBroken)(orig)
    else:
        wrapped = orig

    def counted(zo_paths, *, file_group_map):
        _STATE["entered"] += 1
        # materialise once so contract and function see the same sequence
        return wrapped(list(zo_paths), file_group_map=file_group_map)

    fg.expand_file_group_paths = counted
    _STATE["fn"] = counted


PLAIN = ["a.zo", "sub/b.zo"]
DATED = ["log/{yyyymmdd[0]}.zo", "d/{yyyymmdd[6]}_x.zo", "{days[1]:%Y}/{days[1]:%m}.zo", "w/{days[3]:%a}.zo", "y{days[5].year}.zo", "{yyyymmdd[2]}-{yyyymmdd[4]}.zo"]


def _small_scope_maps():
    """All acyclic maps over g0,g1,g2 (gi may only mention gj, j>i), <=2 members each."""
    names = ["g0", "g1", "g2"]
    alph = {}
    for i, n in enumerate(names):
        alph[n] = ["a.zo", "d/{yyyymmdd[1]}.zo"] + ["@" + m for m in names[i + 1 :]]

    def seqs(al):
        for k in range(3):
            yield from itertools.product(al, repeat=k)

    for m0 in seqs(alph["g0"]):
        for m1 in seqs(alph["g1"]):
            for m2 in seqs(alph["g2"]):
                yield {"g0": list(m0), "g1": list(m1), "g2": list(m2)}


def _arg_lists():
    al = ["@g0", "@g1", "@g2", "x/y.zo"]
    for k in range(3):
        for t in itertools.product(al, repeat=k):
            yield list(t)


def plan(tier: str, seed: int) -> list[dict]:
    units = []
    nshards = 16
    for s in range(nshards):
        units.append({"kind": "small", "shard": s, "of": nshards})
    n_rand = 6000 if tier == "quick" else 200000
    per = 500 if tier == "quick" else 5000
    for start in range(0, n_rand, per):
        units.append({"kind": "random", "start": start, "n": per, "seed": seed})
    units.append({"kind": "cli"})
    n_edit = 48 if tier == "quick" else 800
    for start in range(0, n_edit, 8):
        units.append({"kind": "edit", "start": start, "n": 8, "seed": seed})
    return units


def _check(acc: Acc, args, gmap, today, case_extra=None) -> None:
    import zorg.service.file_groups as fg

    acc.evaluations += 1
    _STATE["today"] = today
    case = {"args": args, "map": gmap, "today": today.isoformat()}
    try:
        exp = ref_expand(args, gmap, today)
    except (NoSuchGroup, IndexError):
        acc.not_judged += 1
        return
    try:
        got = fg.expand_file_group_paths([Path(a) if not a.startswith("@") else a for a in args], file_group_map=gmap)
    except contracts.ContractBroken as e:
        acc.judged += 1
        acc.violation(f"contract on expand_file_group_paths broken at a nested call: {str(e)[:300]}", case, cls="nested expansion differs from reference flattening")
        return
    except Exception as e:
        acc.judged += 1
        acc.violation(f"expansion raised {type(e).__name__}: {e}", case, cls=f"expansion raised {type(e).__name__}")
        return
    acc.judged += 1
    if list(got) != exp:
        acc.violation(f"expand({args}) = {[str(p) for p in got]} but reference flattening = {[str(p) for p in exp]}", case, cls="expansion differs from reference flattening")
        return
    if not all(isinstance(p, Path) for p in got):
        acc.violation("result contains non-Path entries", case, cls="non-Path result")
        return
    # model-free concatenation law on every split point
    for k in range(len(args) + 1):
        left = fg.expand_file_group_paths(args[:k], file_group_map=gmap)
        right = fg.expand_file_group_paths(args[k:], file_group_map=gmap)
        if list(left) + list(right) != list(got):
            acc.violation(f"concatenation law broken at split {k} for {args}", case, cls="concatenation law broken")
            return
    if any(a.startswith("@") for a in args):
        depth = _depth(args, gmap)
        acc.sig(("shape", tuple(_shape(a, gmap) for a in args), today.isoformat() if any("{" in str(p) for g in gmap.values() for p in g) else "-", depth))
    acc.sample({"args": args, "map": gmap, "today": today.isoformat(), "expanded": [str(p) for p in got]})


def _depth(args, gmap, seen=0):
    d = 0
    for a in args:
        if a.startswith("@") and a[1:] in gmap:
            d = max(d, 1 + _depth(gmap[a[1:]], gmap))
    return d


def _shape(a, gmap):
    if not a.startswith("@"):
        return "p"
    return "(" + "".join(_shape(m, gmap) if m.startswith("@") else ("d" if "{" in m else "p") for m in gmap.get(a[1:], [])) + ")"


def _random_case(rng):
    n = rng.randint(1, 6)
    names = [f"grp{i}" if rng.random() < 0.7 else rng.choice(["default", "work", "logs", "x_y", "a"]) + str(i) for i in range(n)]
    gmap = {}
    for i, name in enumerate(names):
        members = []
        for _ in range(rng.choice([0, 1, 1, 2, 2, 3, 4])):
            r = rng.random()
            if r < 0.4 and i + 1 < n:
                members.append("@" + rng.choice(names[i + 1 :]))
            elif r < 0.7:
                members.append(rng.choice(DATED))
            else:
                members.append(rng.choice(PLAIN + ["p%d.zo" % rng.randint(0, 9), "deep/er/f.zo", "noext"]))
        gmap[name] = members
    args = []
    for _ in range(rng.choice([0, 1, 1, 2, 3, 4])):
        r = rng.random()
        if r < 0.6:
            args.append("@" + rng.choice(names))
        elif r < 0.9:
            args.append(rng.choice(PLAIN + ["{yyyymmdd[0]}.zo", "weird{days[9]}.zo", "q.zo"]))
        else:
            args.append("@" + rng.choice(names))
    today = rng.choice(DAYS) if rng.random() < 0.9 else dt.date(2000, 1, 1) + dt.timedelta(days=rng.randint(0, 20000))
    return args, gmap, today


def run_unit(unit: dict) -> dict:
    acc = Acc()
    _STATE["entered"] = 0
    if unit["kind"] == "small":
        arg_lists = list(_arg_lists())
        n = 0
        buckets: dict = {}
        for i, gmap in enumerate(_small_scope_maps()):
            if i % unit["of"] != unit["shard"]:
                continue
            buckets.setdefault(DAYS[(i // unit["of"]) % len(DAYS)], []).append(gmap)
        for today, gmaps in buckets.items():
            # one freeze per (unit, day): freezegun start/stop is the costly part
            with frozen(today, (7 * n) % 24, 59):
                for gmap in gmaps:
                    for args in arg_lists:
                        _check(acc, args, gmap, today)
                        n += 1
        acc.exhaustive_dims["small_scope_map_x_args_cases"] = n
    elif unit["kind"] == "random":
        buckets = {}
        for idx in range(unit["start"], unit["start"] + unit["n"]):
            rng = rng_for(ID, unit["seed"], idx)
            args, gmap, today = _random_case(rng)
            buckets.setdefault(today, []).append((args, gmap))
        for k, (today, cases) in enumerate(buckets.items()):
            with frozen(today, (5 * k) % 24, (7 * k) % 60):
                for args, gmap in cases:
                    _check(acc, args, gmap, today)
    elif unit["kind"] == "cli":
        _check_cli(acc)
    elif unit["kind"] == "edit":
        for idx in range(unit["start"], unit["start"] + unit["n"]):
            _check_edit(acc, unit["seed"], idx)
    acc.count("enter.expand_file_group_paths", _STATE["entered"])
    acc.merge_counts(contracts.take_counts())
    return acc.result()


def _check_edit(acc: Acc, seed: int, idx: int) -> None:
    """End to end: `zorg edit ARGS` with the group map in a config file and a recording stand-in for the editor:
    the editor must be started with exactly the reference flattening (in order, duplicates kept)."""
    import json as _json
    import sys as _sys

    from zmon import db

    rng = rng_for(ID, seed, f"edit{idx}")
    for _ in range(20):
        args, gmap, today = _random_case(rng)
        # (plain names only: the point is order and multiplicity, not path syntax)
        if not args or not any(a.startswith("@") for a in args) or len(args) > 1 and rng.random() < 0.3:
            continue
        try:
            exp = ref_expand(args, gmap, today)
        except (NoSuchGroup, IndexError):
            continue
        if exp and len(exp) != len(set(map(str, exp))) or rng.random() < 0.3:
            break
    else:
        acc.not_judged += 1
        return
    if not exp:
        acc.not_judged += 1
        return
    base = harness.fresh_dir("c18edit")
    root = base / "org"
    root.mkdir()
    rec = base / "editor_args.json"
    fake = base / "fake_vim.py"
    fake.write_text(f"#!{_sys.executable}\nimport json, sys\nopen({str(rec)!r}, 'w').write(json.dumps(sys.argv[1:]))\n")
    fake.chmod(0o755)
    cfg = db.write_config(base / "cfg.yml", file_group_map={k: list(v) for k, v in gmap.items()} or {"unused": ["x.zo"]}, vim_exe=str(fake), keep_alive_file=str(base / "no_keep_alive"))
    case = {"edit": True, "seed": seed, "idx": idx, "args": args, "map": gmap, "today": today.isoformat()}
    acc.evaluations += 1
    _STATE["today"] = today  # (the contract on expand_file_group_paths, which run_edit calls, reads it)
    with frozen(today):
        r = db.cli(root, "edit", *args, config=cfg)
    if not rec.exists():
        acc.not_judged += 1
        acc.count("edit.editor_not_started")
        acc.sample({"edit_not_started": args, "map": gmap, "rc": r.rc, "err": r.err[-300:], "exc": str(r.exc)[:200]}, cap=3)
        return
    acc.judged += 1
    acc.count("edit.judged")
    got = [a for a in _json.loads(rec.read_text()) if a.startswith(str(root) + "/")]
    want = [str(root / (str(p) if "." in str(p) else f"{p}.zo")) for p in exp]
    if got != want:
        acc.violation(f"`zorg edit {' '.join(args)}` started the editor with {[g[len(str(root)) + 1:] for g in got]}, reference flattening {[w[len(str(root)) + 1:] for w in want]}", case, cls="editor not started with the reference flattening (edit route)")
    acc.sig(("edit", len(args), len(exp), len(exp) != len(set(map(str, exp)))))
    import shutil as _sh

    _sh.rmtree(base, ignore_errors=True)


def _check_cli(acc: Acc) -> None:
    """`zorg @group …` and bare `zorg` infer the edit command (argument parser)."""
    from zorg.app.config import clack_parser

    for argv, exp_paths in [
        (["zorg", "@work"], [Path("@work")]),
        (["zorg", "@work", "x.zo"], [Path("@work"), Path("x.zo")]),
        (["zorg", "--dir=/nonexistent-zdir", "@a", "@b"], [Path("@a"), Path("@b")]),
        (["zorg"], [Path("@default")]),
        (["zorg", "edit"], [Path("@default")]),
        (["zorg", "edit", "@g"], [Path("@g")]),
    ]:
        acc.evaluations += 1
        acc.judged += 1
        case = {"argv": argv}
        try:
            from clack import clack_envvars_set
            from zorg.app.config import EditConfig, TemplateRenderConfig

            with clack_envvars_set("zorg", [EditConfig, TemplateRenderConfig]):
                kw = clack_parser(argv)
        except BaseException as e:  # argparse exits with SystemExit
            acc.violation(f"clack_parser({argv}) raised {type(e).__name__}: {e}", case, cls="argument parser rejects file-group invocation")
            continue
        if kw.get("command") != "edit" or list(kw.get("zo_paths", [])) != exp_paths:
            acc.violation(f"clack_parser({argv}) -> command={kw.get('command')} zo_paths={kw.get('zo_paths')}", case, cls="edit not inferred for file-group arguments")
        acc.sig(("cli", tuple(argv[1:])))


def replay(case: dict) -> dict:
    acc = Acc()
    if case.get("edit"):
        _check_edit(acc, case["seed"], case["idx"])
    elif "argv" in case:
        _check_cli(acc)
    else:
        today = dt.date.fromisoformat(case["today"])
        with frozen(today):
            _check(acc, case["args"], case["map"], today)
    acc.merge_counts(contracts.take_counts())
    return acc.result()

"""C09 — query output renders the selected notes faithfully.

Recorder around the real ``swog.execute``; the output is parsed by a small tree
parser and decided by *laws* computed from the raw sqlite universe (partition,
header chain = the note's own labels, siblings sorted and distinct, order keys
non-decreasing inside a group, value lists = distinct values, count law) — not
by a golden text.
"""

from __future__ import annotations

import datetime as dt
import itertools
import re
import shutil

from zmon import db, harness
from zmon.gen import corpus as cg
from zmon.gen import query as qg
from zmon.mon.clock import frozen
from zmon.ref import filter as rf
from zmon.res import Acc, rng_for

ID = "C09"
LEVEL = "exploration"
TODAY = dt.date(2031, 3, 14)
RULE = (
    "seeded corpora (pages with > 9 and > 99 lines, multi-tag notes, empty labels, equal keys) indexed by the real db create x "
    "queries over every select form (note, file, tags, prop, prop:key, links, count(.)) x 0-4 grouping dimensions (all ordered "
    "choices for <= 2 dimensions, sampled above) x ordering lists of length 1-3, W restricted to kinds/priorities/none. "
    "distinct = distinct (select, group dims, order keys, #leaves bucket) signatures; non-trivial = >= 2 notes selected."
)
ASSUMPTIONS = [
    "matching notes = reference evaluation of the (trivial) W clause over the raw sqlite rows",
    "ties between equal order keys are not judged; an alpha key in non-last position is not judged when one item text is a proper prefix of the other",
]
REQUIRED_COUNTERS = ["enter._group_notes_by", "enter._order_notes_by", "enter._select", "enter._get_header", "cli.query_runs"]
MIN_JUDGED = {"quick": 800, "thorough": 20000}
FINDING_NONE = "C09-order-none-compares-line-numbers-as-text"
HEADERS = {1: "#" * 32, 2: "=" * 24, 3: "+" * 16, 4: "-" * 8}
ITEM_RE = re.compile(r"^[-ox~<>] (?:P\d )?(?:\d{6} )?(\d{6}#[0-9A-Za-z]{2,3})(?= |$)")
TYPE_LABEL = {"-": "4 | NOTES", "o": "1 | OPEN TODOS", "<": "1 | OPEN TODOS", ">": "1 | OPEN TODOS", "x": "2 | DONE TODOS", "~": "3 | CANCELED TODOS"}
GROUPS = ["file", "section", "type", "priority", "@", "#", "%", "+"]
ORDERS = ["alpha", "create", "modify", "priority", "type", "none"]
SELECTS = ["note", "file", "#", "@", "%", "+", "prop", "links", "prop:due", "prop:kA", "prop:status"]


def setup_worker() -> None:
    import zorg.service.swog._executor as ex

    for n in ("_group_notes_by", "_order_notes_by", "_select", "_get_header", "_select_note", "_select_tags", "_select_file"):
        harness.COUNTERS.watch_attr(ex, n)


def plan(tier: str, seed: int) -> list[dict]:
    n_idx, n_q = (24, 44) if tier == "quick" else (300, 130)
    return [{"kind": "index", "idx": i, "nq": n_q, "seed": seed} for i in range(n_idx)]


def label(note: dict, dim: str) -> str:
    if dim == "file":
        return "[[" + note["page"].replace(".zo", "") + "]]"
    if dim == "section":
        return " | ".join(note["section"])
    if dim == "type":
        return TYPE_LABEL[note["kind"]]
    if dim == "priority":
        return note["priority"] or ""
    attr = {"@": "contexts", "#": "areas", "%": "people", "+": "projects"}[dim]
    return " | ".join(dim + t for t in sorted(note[attr]))


def order_key(note: dict, key: str, item_text: str):
    if key == "alpha":
        return item_text + "\n"
    if key == "create":
        return note["create"].replace("-", "")
    if key == "modify":
        return note["modify"].replace("-", "")
    if key == "priority":
        return note["priority"] or ""
    if key == "type":
        return TYPE_LABEL[note["kind"]]
    return (note["page"], note["line"])


def values_of(note: dict, select: str) -> list[str]:
    if select == "file":
        return [note["page"]]
    if select in "#@%+":
        return list(note[{"@": "contexts", "#": "areas", "%": "people", "+": "projects"}[select]])
    if select == "prop":
        return list(note["props"].keys())
    if select == "links":
        return list(note["links"])
    if select.startswith("prop:"):
        k = select.split(":", 1)[1]
        return [note["props"][k]] if k in note["props"] else []
    raise ValueError(select)


def parse_output(out: str):
    """-> list of (label tuple, [entries]); an entry is a list of lines."""
    labels = ["", "", "", ""]
    leaves: list = []
    cur = None
    lines = out.split("\n")
    for ln in lines:
        lvl = None
        for k, h in HEADERS.items():
            if ln.startswith(h + " ") and (k != 4 or True):
                lvl = k
                break
        if lvl is not None:
            labels[lvl - 1] = ln[len(HEADERS[lvl]) + 1 :]
            for j in range(lvl, 4):
                labels[j] = ""
            cur = None
            continue
        if ln.strip() == "":
            continue
        if cur is None or cur[0] != tuple(labels):
            cur = (tuple(labels), [])
            leaves.append(cur)
        cur[1].append(ln)
    return leaves


def split_items(lines: list[str]) -> list[list[str]]:
    items: list = []
    for ln in lines:
        if ln.startswith(" ") and items:
            items[-1].append(ln)
        else:
            items.append([ln])
    return items


def check_query(acc: Acc, root, dump, uni, select: str, kinds: str, prios, groups: list, orders: list, case: dict) -> None:
    from zorg.service import swog
    import zorg.domain.models as M
    import zorg.domain.types as T

    acc.evaluations += 1
    w = " ".join(x for x in (kinds, prios[0] if prios else "") if x)
    text = f"S {select}" + (f" W {w}" if w else "") + (f" O {' '.join(orders)}" if orders else "") + f" G {' '.join(groups) if groups else 'none'}"
    case = dict(case, query=text)
    # matching notes by the reference evaluator (trivial atoms only)
    NT = T.NoteType
    km = {"-": NT.BASIC, "o": NT.OPEN_TODO, "x": NT.CLOSED_TODO, "~": NT.CANCELED_TODO, "<": NT.BLOCKED_TODO, ">": NT.PARENT_TODO}
    af = M.WhereAndFilter(allowed_note_types={km[c] for c in kinds}, priorities=set(prios[1]) if prios else set())
    where = M.WhereOrFilter([af]) if w else None
    must, unknown = rf.evaluate(where, uni)
    byz = dump.by_zid()
    db.fresh_process_state()
    try:
        out = swog.execute(root, db.db_url(root), text)
    except Exception as e:
        acc.judged += 1
        acc.violation(f"{text!r} raised {type(e).__name__}: {e}", case, cls=f"query execution raised {type(e).__name__}")
        return
    finally:
        db.fresh_process_state()
    acc.judged += 1
    if acc.evaluations % 8 == 0 and (orders or select == "note"):
        # (without an O clause the command line adds ' O alpha' to non-note selections by design: C04 judges that
        #  normalisation; here the two routes are compared on queries that spell their ordering)
        # the user-level route: `zorg query TEXT` (argument parser, query normalisation, runner) must print the same result
        rq = db.cli(root, "query", text)
        acc.count("cli.query_runs")
        if rq.rc != 0 or rq.out.rstrip("\n") != out.rstrip("\n"):
            acc.violation(f"`zorg query {text!r}` (rc={rq.rc}) prints something else than the query service returns: {rq.out[:200]!r} vs {out[:200]!r} {rq.err[-200:]}", case, cls="CLI query output differs from the service result")
    eff_orders = orders or ["type", "priority", "modify", "create"]
    leaves = parse_output(out)
    dims = groups[:]
    # expected leaf of every matching note
    exp_leaf: dict = {}
    for zz in must:
        n = byz[zz]
        exp_leaf.setdefault(tuple([label(n, d) for d in dims] + [""] * (4 - len(dims))), []).append(zz)
    seq = [l for l, _ in leaves]
    if any(not (a < b) for a, b in zip(seq, seq[1:])):
        bad = next((a, b) for a, b in zip(seq, seq[1:]) if not a < b)
        acc.violation(f"{text!r}: group headers not strictly ascending / repeated: {bad[0]} then {bad[1]}", case, cls="sibling headers not sorted or not distinct")
    is_count = select.startswith("count(")
    inner = select[6:-1] if is_count else select
    if inner == "note" and not is_count:
        seen: list = []
        for lab, lines in leaves:
            items = split_items(lines)
            prev = None
            for it in items:
                m = ITEM_RE.match(it[0])
                if not m:
                    acc.violation(f"{text!r}: output line is not an item: {it[0]!r}", case, cls="unparseable item in output")
                    continue
                zz = m.group(1)
                seen.append(zz)
                n = byz.get(zz)
                if n is None or zz not in must:
                    acc.violation(f"{text!r}: note {zz} in the output does not match the W clause", case, cls="non-matching note rendered")
                    continue
                want = tuple([label(n, d) for d in dims] + [""] * (4 - len(dims)))
                if want != lab:
                    acc.violation(f"{text!r}: note {zz} rendered under {lab}, its own labels are {want}", case, cls="note under wrong header chain")
                txt = "\n".join(it)
                keys = [order_key(n, k, txt) for k in eff_orders]
                if prev is not None:
                    pk, ptxt, pz = prev
                    verdict = _cmp_keys(pk, keys, eff_orders)
                    if verdict == "desc":
                        fd = _first_diff(pk, keys, eff_orders)
                        finding = None
                        if fd == "none":
                            # known mechanism: the key is the STRING "<path>::<line>"; it explains this
                            # pair iff the two notes are in string order of exactly that key
                            i = eff_orders.index("none")
                            (pp, pl), (cp, cl) = pk[i], keys[i]
                            if f"{pp}::{pl}" <= f"{cp}::{cl}" and pp == cp:
                                finding = FINDING_NONE
                        acc.violation(f"{text!r}: in group {lab} note {pz} precedes {zz} but its order keys are greater: {pk} > {keys}", case, cls="order keys decreasing inside a group: " + fd, finding=finding)
                prev = (keys, txt, zz)
        if sorted(seen) != sorted(must):
            missing = sorted(set(must) - set(seen))
            dup = sorted({z_ for z_ in seen if seen.count(z_) > 1})
            acc.violation(f"{text!r}: rendered notes != matching notes: missing={missing[:3]} repeated={dup[:3]} (rendered {len(seen)}, matching {len(must)})", case, cls="partition broken (missing or repeated note)")
    else:
        got = {lab: lines for lab, lines in leaves}
        if is_count:
            try:
                base = swog.execute(root, db.db_url(root), text.replace(select, inner, 1))
            except Exception as e:
                acc.violation(f"base query for count law raised {e}", case, cls="count law: base query raised")
                return
            finally:
                db.fresh_process_state()
            base_leaves = {lab: lines for lab, lines in parse_output(base)}
            for lab, zs in exp_leaf.items():
                want_n = len(split_items(base_leaves.get(lab, []))) if inner == "note" else len(base_leaves.get(lab, []))
                lines = got.get(lab, [])
                # an EMPTY property value ('  * owner::') is printed as an empty line, which the output parser cannot
                # tell from spacing: such an entry is counted by count(.) but invisible in the parsed base listing
                n_empty = 1 if (inner.startswith("prop:") and any("" in values_of(byz[zz], inner) for zz in zs)) else 0
                if n_empty:
                    # ... so for such groups the count is judged against the index instead: number of distinct values, '' included
                    distinct_vals = set()
                    for zz in zs:
                        distinct_vals.update(values_of(byz[zz], inner))
                    if len(lines) != 1 or not lines[0].isdigit() or int(lines[0]) != len(distinct_vals):
                        acc.violation(f"{text!r}: group {lab} prints {lines} but its notes carry {len(distinct_vals)} distinct values of {inner!r} (one of them empty)", case, cls="count(x) != number of distinct values (empty value present)")
                    continue
                if len(lines) != 1 or not lines[0].isdigit() or int(lines[0]) != want_n:
                    acc.violation(f"{text!r}: group {lab} prints {lines} but selecting {inner!r} yields {want_n} entries", case, cls="count(x) != number of entries of S x")
        else:
            for lab, zs in exp_leaf.items():
                want_vals = set()
                for zz in zs:
                    want_vals.update(values_of(byz[zz], inner))
                want_vals.discard("")  # (printed as an empty line: not visible to the output parser, not judged)
                lines = got.get(lab, [])
                if set(lines) != want_vals or len(lines) != len(set(lines)):
                    acc.violation(f"{text!r}: group {lab} lists {sorted(lines)[:6]} but the distinct values of its notes are {sorted(want_vals)[:6]}", case, cls="value list != distinct values of the group")
                elif (set(eff_orders) == {"alpha"} or inner == "file") and lines != sorted(lines):
                    acc.violation(f"{text!r}: group {lab} values not sorted although ordered by alpha: {lines[:6]}", case, cls="value list not sorted under O alpha")
            for lab in got:
                if lab not in exp_leaf and got[lab]:
                    acc.violation(f"{text!r}: output has group {lab} with entries but no matching note carries these labels", case, cls="spurious group")
    if len(must) >= 2:
        acc.sig((select, tuple(groups), tuple(orders), min(len(leaves), 6)))
    acc.sample({"query": text, "matching": len(must), "leaves": [list(l) for l, _ in leaves][:4], "output_head": out[:300]}, cap=2)


def _cmp_keys(a, b, orders) -> str:
    for x, y, k in zip(a, b, orders):
        if x == y:
            continue
        if k == "alpha" and k != orders[-1] and (x.rstrip("\n").startswith(y.rstrip("\n")) or y.rstrip("\n").startswith(x.rstrip("\n"))):
            return "unjudged"
        return "asc" if x < y else "desc"
    return "tie"


def _first_diff(a, b, orders) -> str:
    for x, y, k in zip(a, b, orders):
        if x != y:
            return k
    return "?"


def run_index(acc: Acc, seed: int, idx: int, nq: int, only=None) -> None:
    rng = rng_for(ID, seed, f"i{idx}")
    with frozen(TODAY):
        z, pools = cg.gen_corpus(rng, TODAY)
        # make some pages long so that line numbers pass 9 and 99
        from zmon.gen import page as pg

        for rel, p in list(z.pages.items())[:2]:
            pad = rng.choice([8, 12, 95, 110])
            p.header_lines = [[pg.W("pad"), pg.W(str(i))] for i in range(pad)]
        root = harness.fresh_dir("c09") / "org"
        root.mkdir()
        z.write(root)
        r = db.cli(root, "db", "create")
        if r.rc != 0:
            acc.inconclusive.append(f"index {idx}: db create failed rc={r.rc} {r.err[-200:]}")
            return
        if idx % 3 == 1:
            from zmon.gen import history as hg

            hg.evolve_files(root, rng)
            r = db.cli(root, "db", "reindex")
            if r.rc != 0:
                acc.inconclusive.append(f"index {idx}: db reindex after edits failed rc={r.rc} {r.err[-200:]}")
                return
            acc.count("incrementally_updated_indexes")
        dump = db.dump_index(root)
        uni = rf.Universe(dump.notes)
        files = {rel: (root / rel).read_text() for rel in z.pages if (root / rel).exists()}
        combos = [[]] + [[g] for g in GROUPS] + [list(t) for t in itertools.permutations(GROUPS, 2)]
        for qi in range(nq):
            qr = rng_for(ID, seed, f"i{idx}q{qi}")
            if qi < len(combos) and qr.random() < 0.7:
                groups = combos[(qi + idx * 7) % len(combos)]
            else:
                groups = qr.sample(GROUPS, qr.choice([0, 1, 2, 3, 3, 4, 4]))
            sel = qr.choice(SELECTS) if qr.random() < 0.5 else "note"
            if qr.random() < 0.2:
                sel = f"count({sel})"
            orders = [qr.choice(ORDERS) for _ in range(qr.choice([0, 1, 1, 2, 3]))]
            if qr.random() < 0.25:
                orders = ["none"]
            if sel != "note" and qr.random() < 0.4:
                orders = ["alpha"]
            kinds = "".join(qr.sample("-o~<>", qr.choice([0, 0, 1, 2, 3]))) if qr.random() < 0.5 else ""
            if kinds and qr.random() < 0.3:
                kinds = kinds.replace("o", "x")
            prios = qr.choice(qg.PRIORITY_SPELLINGS) if qr.random() < 0.25 else None
            if only is not None and only != qi:
                continue
            check_query(acc, root, dump, uni, sel, kinds, prios, groups, orders, {"seed": seed, "idx": idx, "qi": qi, "files": files})
        shutil.rmtree(root.parent, ignore_errors=True)


def run_unit(unit: dict) -> dict:
    acc = Acc()
    run_index(acc, unit["seed"], unit["idx"], unit["nq"])
    acc.merge_counts(harness.COUNTERS.take())
    return acc.result()


def replay(case: dict) -> dict:
    acc = Acc()
    run_index(acc, case["seed"], case["idx"], 500, only=case["qi"])
    acc.merge_counts(harness.COUNTERS.take())
    return acc.result()

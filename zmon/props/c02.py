"""C02 — notes inherit metadata from the page title and enclosing sections only.

Workload: the COMPLETE set of legal header-level sequences up to a bound
(exhaustive in the skeleton dimension) x seeded decoration placements in which
every decoration value is unique per placement, so a leaked or lost value names
the scope it was written in.  Oracle: scope union computed by construction.
"""

from __future__ import annotations

import datetime as dt
import random

from zmon import harness
from zmon.gen import page as pg
from zmon.gen.page import W
from zmon.mon.clock import frozen
from zmon.ref import pagecheck as pc
from zmon.res import Acc, rng_for

ID = "C02"
LEVEL = "exploration"
TODAY = dt.date(2031, 3, 14)
RULE = (
    "ALL legal section skeletons (first header H1 or H2, each next level <= previous+1, levels 1-4) with up to N headers "
    "(quick N=6: 549 skeletons, thorough N=8: 4924) x K seeded decoration placements (tags of all four kinds, page/"
    "anchor/ID links, simple/inline/bullet properties with keys deliberately reused across nested scopes, dates on title "
    "line, later header lines, every section header, in-block comments and items; all-digit tags); decoration values are "
    "unique per placement (a leak names its source scope) except that 20-30% of the placements repeat an earlier tag or "
    "key::value pair verbatim in another scope. distinct = distinct (skeleton, decoration-placement bitmap) pairs with >= 1 note under >= 1 "
    "decorated scope."
)
ASSUMPTIONS = [
    "valid page == zero parser errors recorded by the injected listener",
    "not judged: two properties with one key in the same scope, tags inside quoted words, date-valued properties in headers",
]
REQUIRED_COUNTERS = ["enter._add_tag", "enter._add_prop", "enter.exitH3_section", "enter.exitH4_section", "enter.enterDate"]
MIN_JUDGED = {"quick": 1500, "thorough": 20000}
KEYS = ["kA", "kB", "kC", "due"]


def skeletons(n_max: int):
    def rec(seq):
        if seq:
            yield tuple(seq)
        if len(seq) == n_max:
            return
        nxt = [1, 2] if not seq else range(1, min(4, seq[-1] + 1) + 1)
        for l in nxt:
            seq.append(l)
            yield from rec(seq)
            seq.pop()

    yield from rec([])


def setup_worker() -> None:
    from zorg.service.compiler._file_compiler import ZorgFileCompiler as Z

    for n in ("_add_tag", "_add_prop", "exitH1_section", "exitH2_section", "exitH3_section", "exitH4_section", "enterDate", "_add_note"):
        harness.COUNTERS.watch_attr(Z, n)


def plan(tier: str, seed: int) -> list[dict]:
    n_max, k = (6, 4) if tier == "quick" else (8, 6)
    sk = list(skeletons(n_max))
    units = []
    per = 12 if tier == "quick" else 40
    for s in range(0, len(sk), per):
        units.append({"kind": "skel", "n_max": n_max, "lo": s, "hi": min(len(sk), s + per), "k": k, "seed": seed})
    return units


class _Deco:
    """Produces decoration words whose values are unique per placement."""

    def __init__(self, rng: random.Random):
        self.rng = rng
        self.n = 0
        self.bitmap: list[str] = []
        self.seen_props: list = []  # (key, value) pairs written so far: some placements repeat one verbatim
        self.seen_tags: list = []

    def u(self, label: str) -> str:
        self.n += 1
        return f"{label}n{self.n}"

    def day(self) -> dt.date:
        return dt.date(2024, 1, 1) + dt.timedelta(days=self.rng.randint(0, 700))

    def words(self, label: str, used_keys: set, lo: int = 0, hi: int = 3, props: bool = True, where: str = "header") -> list:
        rng = self.rng
        out = []
        for _ in range(rng.randint(lo, hi)):
            r = rng.random()
            u = self.u(label)
            if r < 0.4:
                kind = rng.choice("#@%+")
                attr = {"#": "areas", "@": "contexts", "%": "people", "+": "projects"}[kind]
                name = "t" + u
                if self.seen_tags and rng.random() < 0.2:
                    kind, name = rng.choice(self.seen_tags)  # the very same tag again in another scope
                    attr = {"#": "areas", "@": "contexts", "%": "people", "+": "projects"}[kind]
                self.seen_tags.append((kind, name))
                out.append(W(kind + name, form="tag", **{attr: (name,)}))
            elif r < 0.55:
                t = rng.choice(["l" + u, "d/l" + u, "l" + u + "#anc"])
                out.append(W("[[" + t + "]]", links=(t,), form="link"))
            elif r < 0.62:
                k = rng.choice(["#", "^", "@"])
                pre = {"#": "global:", "^": "local:", "@": "ref:"}[k]
                out.append(W("[" + k + "i" + u + "]", links=(pre + "i" + u,), form="idlink"))
            elif r < 0.9 and props:
                keys = [k for k in KEYS if k not in used_keys]
                if not keys:
                    continue
                k = rng.choice(keys)
                v = "v" + u
                same = [(k2, v2) for k2, v2 in self.seen_props if k2 in keys and " " not in v2]
                if same and rng.random() < 0.3:
                    k, v = rng.choice(same)  # the very same key::value again in another scope
                used_keys.add(k)
                if rng.random() < 0.6:
                    self.seen_props.append((k, v))
                    out.append(W(f"{k}::{v}", props=((k, v),), form="prop"))
                else:
                    out.append(W(f"[{k}:: {v} w]", props=((k, f"{v} w"),), form="inline_prop"))
            elif r < 0.95:
                out.append(pg.w_digit_tag(rng))
            else:
                out.append(pg.w_plain(rng))
        self.bitmap.append(f"{label}:{len(out)}")
        return out


def build(skel, rng: random.Random):
    d = _Deco(rng)
    file_keys: set = set()
    page = pg.Page(title_words=[W("Title")] + d.words("title", file_keys, 0, 3))
    if rng.random() < 0.4:
        page.title_date = d.day()
    if rng.random() < 0.12:
        # the title line may be a bare '#': it still IS the title line (nothing on later lines becomes page metadata)
        page.title_words, page.title_date = [], None
        file_keys.clear()
    for j in range(rng.choice([0, 0, 1, 2]) if page.title_words else rng.choice([1, 2, 3])):
        hl = ([W("more")] if rng.random() < 0.8 else []) + d.words(f"hl{j}", file_keys, 0, 3)
        if not page.title_words and j > 0 and rng.random() < 0.3:
            hl = []  # further bare '#' lines
        if rng.random() < 0.3:
            hl.append(W(d.day().isoformat(), form="date_in_later_header_line"))
        page.header_lines.append(hl)
    uid = [0]

    def item(label: str) -> pg.Item:
        uid[0] += 1
        keys: set = set()
        it = pg.Item(kind=rng.choice(pg.KINDS), words=[W("n" + label)], uid=f"i{uid[0]}")
        if it.kind != "-" and rng.random() < 0.4:
            it.priority = rng.randint(0, 9)
        r = rng.random()
        if r < 0.3:
            it.zid = pg.rand_zid(rng, d.day())
            if rng.random() < 0.3:
                it.mod = d.day()
        elif r < 0.4:
            it.ldate = d.day()
        it.words += d.words("it" + label, keys, 0, 3, where="item")
        if rng.random() < 0.3:
            it.cont.append(pg.Cont("  ", "* ", [W("bullet")] + d.words("bu" + label, keys, 0, 2, where="item")))
        if rng.random() < 0.3:
            ks = [k for k in KEYS if k not in keys]
            if ks:
                k = rng.choice(ks)
                keys.add(k)
                it.cont.append(pg.Cont("  ", "* ", [W("bv" + d.u(label)), W("w2")], prop_key=k))
        return it

    def block(label: str) -> pg.Block:
        entries = []
        if rng.random() < 0.25:
            entries.append(pg.Comment([W("cmt")] + d.words("cm" + label, set(), 1, 3) + ([W(d.day().isoformat())] if rng.random() < 0.3 else [])))
        for j in range(rng.choice([1, 1, 2])):
            entries.append(item(f"{label}_{j}"))
        if rng.random() < 0.15:
            entries.append(pg.Comment([W("tail")] + d.words("ct" + label, set(), 1, 2)))
        return pg.Block(entries, blank_after=rng.choice([1, 1, 2]))

    if rng.random() < 0.7:
        page.blocks.append(block("root"))
    stack: list = []
    for si, lvl in enumerate(skel):
        sec = pg.Section(level=lvl, words=[W(f"S{si}L{lvl}")] + d.words(f"h{lvl}s{si}", set(), 0, 3))
        if rng.random() < 0.35:
            sec.date = d.day()
        sec.blank_after_header = rng.choice([0, 0, 1])
        sec.blank_before = rng.choice([0, 0, 1])
        if rng.random() < 0.88:
            sec.blocks.append(block(f"s{si}"))
            if rng.random() < 0.2:
                sec.blocks.append(block(f"s{si}b"))
        while stack and stack[-1].level >= lvl:
            stack.pop()
        if stack:
            stack[-1].children.append(sec)
        else:
            page.sections.append(sec)
        stack.append(sec)
    return page, "|".join(d.bitmap)


def gen_case(n_max: int, si: int, k: int, seed: int):
    sk = list(skeletons(n_max))[si]
    rng = rng_for(ID, seed, f"{sk}:{k}")
    page, bitmap = build(sk, rng)
    text, exp = pg.render(page)
    return sk, page, text, exp, bitmap


def judge(acc: Acc, sk, page, text, exp, bitmap, case) -> None:
    acc.evaluations += 1
    harness.prime(acc.evaluations)  # another page compiled first, in the same process: must not matter
    c = harness.compile_text(text)
    if c.exc is not None:
        acc.judged += 1
        acc.violation(f"walk_zorg_page raised {type(c.exc).__name__}: {c.exc}", case, cls=f"compilation raised {type(c.exc).__name__}")
        return
    if c.parser_errors:
        acc.generator_invalid += 1
        acc.sample({"generator_invalid": c.parser_errors[:2], "text": text[:500]}, cap=4)
        return
    acc.judged += 1
    diffs = pc.compare_c02(c.page.notes, exp, TODAY)
    for cls, msg in diffs:
        acc.violation(msg, case, cls=cls)
    if exp:
        acc.sig((sk, bitmap))
    if not diffs and exp:
        n = c.page.notes[-1]
        acc.sample({"skeleton": list(sk), "text": text[:900], "last_note": {"areas": n.areas, "contexts": n.contexts, "people": n.people, "projects": n.projects, "links": n.links, "properties": n.properties, "create_date": str(n.create_date)}}, cap=2)


def run_unit(unit: dict) -> dict:
    acc = Acc()
    with frozen(TODAY):
        n = 0
        for si in range(unit["lo"], unit["hi"]):
            for k in range(unit["k"]):
                sk, page, text, exp, bitmap = gen_case(unit["n_max"], si, k, unit["seed"])
                judge(acc, sk, page, text, exp, bitmap, {"n_max": unit["n_max"], "si": si, "k": k, "seed": unit["seed"], "text": text})
            n += 1
        acc.exhaustive_dims["skeletons_enumerated"] = n
    acc.merge_counts(harness.COUNTERS.take())
    return acc.result()


def replay(case: dict) -> dict:
    acc = Acc()
    with frozen(TODAY):
        sk, page, text, exp, bitmap = gen_case(case["n_max"], case["si"], case["k"], case["seed"])
        if text != case["text"]:
            acc.inconclusive.append("generator changed since this replay was recorded")
        else:
            judge(acc, sk, page, text, exp, bitmap, case)
    acc.merge_counts(harness.COUNTERS.take())
    return acc.result()

"""C14 — `file rename` retargets every link to the page and nothing else.

Effect tracer (renames, writes) + byte snapshots around the real CLI command;
oracle: a link tokenizer that rewrites exactly the targets equal to A.
"""

from __future__ import annotations

import re
import shutil
from pathlib import Path

from zmon import db, harness
from zmon.gen import page as pg
from zmon.mon.effects import TRACER
from zmon.res import Acc, rng_for

ID = "C14"
LEVEL = "exploration"
RULE = (
    "seeded directories (pages in sub-directories, .zot templates, .zoq query pages) whose texts carry links that are exact, "
    "anchored, prefixes, suffixes, path extensions, dotted/dashed extensions and case variants of A, A and B given with and "
    "without .zo, self links, A in a sub-directory -> real `zorg file rename A B` -> byte comparison with the tokenizer model "
    "and frame condition on written files. distinct = distinct (variant multiset, A in subdir?, B in subdir?, extension "
    "spelling) signatures; non-trivial = >= 1 link to A and >= 1 near-miss link present."
)
ASSUMPTIONS = ["not judged: B in a directory that does not exist, B already existing; A may be a page (.zo), a template (.zot) or a query page (.zoq) — links to the latter two carry the extension"]
REQUIRED_COUNTERS = ["enter.run_file_rename", "links.rewritten"]
MIN_JUDGED = {"quick": 2000, "thorough": 30000}
LINK_RE = re.compile(r"\[\[([^\[\]\n]*?)\]\]")
NAMES = ["alpha", "a_b", "prj", "notes", "p", "in_box", "log2024", "x1", "c++", "x-y", "n_1", "a(b)", "what?"]


def setup_worker() -> None:
    import zorg.app.runners._run_file as rf

    harness.COUNTERS.watch_attr(rf, "run_file_rename")
    TRACER.install()


def plan(tier: str, seed: int) -> list[dict]:
    n = 2400 if tier == "quick" else 40000
    per = 75 if tier == "quick" else 500
    return [{"kind": "rename", "start": s, "n": per, "seed": seed} for s in range(0, n, per)]


def variants(a: str, rng) -> list[tuple[str, str]]:
    """(kind, link target text)"""
    base = a.split("/")[-1]
    v = [("exact", a), ("exact", a), ("anchor", a + "#sec1"), ("anchor", a + "#a_b"), ("prefix", a[:-1] or "z"), ("longer", a + "2"), ("longer", a + "_old"),
         ("suffix", a[1:] or "z"), ("pathext", a + "/child"), ("indir", "other/" + a), ("dotted", a + ".bak"), ("dashed", a + "-x"), ("case", a.upper() if a != a.upper() else a.lower()),
         ("base_only", base if base != a else base + "x"), ("withext", a + ".zo"), ("anchor_like", a + "x#sec")]
    rng.shuffle(v)
    return v[: rng.randint(3, len(v))]


def expected_text(text: str, a: str, b: str) -> tuple[str, int]:
    n = 0

    def sub(m):
        nonlocal n
        t = m.group(1)
        target, sep, anchor = t.partition("#")
        if target == a:
            n += 1
            return "[[" + b + sep + anchor + "]]"
        return m.group(0)

    return LINK_RE.sub(sub, text), n


def run_case(acc: Acc, seed: int, idx: int) -> None:
    rng = rng_for(ID, seed, idx)
    root = harness.notes_root("c14", idx)  # (some directories are reached through a symlink / a '..' component)
    acc.evaluations += 1
    names = rng.sample(NAMES, rng.randint(2, 5))
    rels = {}
    for nm in names:
        sub = rng.choice(["", "", "sub/", "d2/deep/"])
        rels[nm] = sub + nm
    a = rels[names[0]]
    b_dir = rng.choice(["", "sub/", a.rsplit("/", 1)[0] + "/" if "/" in a else ""])
    if b_dir and not any(r.startswith(b_dir) for r in rels.values()):
        b_dir = ""
    b = b_dir + rng.choice(["renamed", "new_name", "a_b2", names[0] + "_v2"])
    used = []
    files = {}
    vs = variants(a, rng)
    for nm, rel in rels.items():
        lines = [f"# Page {nm} [[{a}]]" if rng.random() < 0.3 else f"# Page {nm}", ""]
        for i in range(rng.randint(1, 5)):
            words = [rng.choice(["- ", "o P1 ", "x "]) + f"24010{i % 9 + 1}#A{i % 9}", "note", nm]
            for _ in range(rng.choice([0, 1, 1, 2, 3])):
                kind, t = rng.choice(vs)
                used.append(kind)
                deco = rng.choice(["{}", "({})", "{},", "see:{}", "{}.", "'{}'"])
                words.append(deco.format("[[" + t + "]]"))
            if rng.random() < 0.1:
                words.append("[[" + a)  # unterminated text that merely starts like a link
                used.append("unterminated")
            if rng.random() < 0.1:
                words.append(a)  # plain mention, not a link
            if rng.random() < 0.25:
                # links to a template / query page are written WITH the extension
                words.append(rng.choice(["[[tmpl/day.zot]]", "[[tmpl/day.zot#top]]", "[[tmpl/day]]", "[[tmpl/day.zot2]]", "[[zoq/q.zoq]]", "[[tmpl/day.zo]]", "([[tmpl/day.zot]])"]))
            lines.append(" ".join(words))
        files[rel + ".zo"] = "\n".join(lines) + "\n"
    files["tmpl/day.zot"] = "# Template\n#\n# ^ = [[template]]\n# self = [[tmpl/day.zot]]\n\n## {{ name }}\n##\n## ^ = [[" + a + "]]\n## < = [[" + a + "#top]]\n## > = [[" + a + "2]]\n\no todo from template [[" + rng.choice(vs)[1] + "]]\n"
    files["zoq/q.zoq"] = "# S note W [[" + a + "]] G none\n#\n# SAVED QUERY GENERATED ON 2031-03-14 AT 12:00:00.\n\n- 240101#Zz result [[" + a + "]] and [[" + rng.choice(vs)[1] + "]]\n"
    used += ["exact", "anchor", "longer"]
    for rel, text in files.items():
        f = root / rel
        f.parent.mkdir(parents=True, exist_ok=True)
        f.write_text(text)
    fname = lambda x: x if "." in x.rsplit("/", 1)[-1] else x + ".zo"
    for step in range(3):
        if step == 2:
            # renaming a template (or a query page): its links carry the extension
            if rng.random() < 0.5:
                a, b = "tmpl/day.zot", rng.choice(["tmpl/daily.zot", "tmpl/day_log.zot", "day.zot"])
            else:
                a, b = "zoq/q.zoq", rng.choice(["zoq/open.zoq", "zoq/q2.zoq"])
            if not (root / a).exists():
                break
        if step == 1:
            # a second rename in the same directory: B -> C (the links were retargeted to B by the first one)
            a, b = b, (b.rsplit("/", 1)[0] + "/" if "/" in b and rng.random() < 0.5 else "") + rng.choice(["third", "c_name", "renamed2"])
            if (root / (b + ".zo")).exists():
                break
        before = {str(f.relative_to(root)): f.read_bytes() for f in sorted(root.rglob("*")) if f.is_file()}
        a_arg = a + (".zo" if (rng.random() < 0.4 and fname(a) != a) else "")
        b_arg = b + (".zo" if (rng.random() < 0.4 and fname(b) != b) else "")
        if rng.random() < 0.2:
            # page names given as FULL paths, spelled like --dir itself (which may be a symlink / hold a '..')
            # (with the explicit .zo: zorg decides "has an extension" by looking for a '.' anywhere in the argument,
            #  which a '..' in the directory part would satisfy - a documented limitation, not judged here)
            a_arg, b_arg = (f"{root}/{x}" + ("" if x.endswith((".zo", ".zot", ".zoq")) else ".zo") for x in (a_arg, b_arg))
            acc.count("rename.full_path_arguments")
        case = {"seed": seed, "idx": idx, "a": a_arg, "b": b_arg, "files": files}
        TRACER.start(root)
        r = db.cli(root, "file", "rename", a_arg, b_arg)
        ev = TRACER.stop()
        acc.judged += 1
        if r.rc != 0:
            acc.violation(f"`file rename {a_arg} {b_arg}` failed rc={r.rc} {r.err[-300:]}", case, cls="file rename fails")
            break
        after = {str(f.relative_to(root)): f.read_bytes() for f in sorted(root.rglob("*")) if f.is_file()}
        if fname(a) in after:
            acc.violation(f"{fname(a)} still exists after the rename", case, cls="source page still exists")
        if fname(b) not in after:
            acc.violation(f"{fname(b)} does not exist after the rename", case, cls="destination page missing")
            break
        n_total = 0
        should_write = set()
        for rel, old in before.items():
            new_rel = fname(b) if rel == fname(a) else rel
            exp, n = expected_text(old.decode(), a, b)
            n_total += n
            if n:
                should_write.add(new_rel)
            got = after.get(new_rel)
            if got is None:
                acc.violation(f"{new_rel} disappeared", case, cls="file disappeared")
                continue
            if got.decode() != exp:
                gl, el = got.decode().split("\n"), exp.split("\n")
                d = next(((g, e) for g, e in zip(gl, el) if g != e), (None, None))
                left = any(("[[" + a + "]]") in g or ("[[" + a + "#") in g for g in gl)
                acc.violation(f"{new_rel}: content differs from 'every link to {a} retargeted to {b}, every other byte unchanged': got {d[0]!r}, expected {d[1]!r}", case, cls="link to the renamed page left behind" if left else "bytes changed that are not a link target equal to A")
        acc.count("links.rewritten", n_total)
        written = {e[1] for e in ev if e[0] == "write"}
        if written - should_write:
            acc.violation(f"files written although they contain no link to {a}: {sorted(written - should_write)}", case, cls="file without such a link was written")
        if n_total and len(set(used)) > 2:
            acc.sig((tuple(sorted(set(used))), "/" in a, "/" in b, a_arg.endswith(".zo"), b_arg.endswith(".zo")))
        acc.sample({"a": a_arg, "b": b_arg, "links_rewritten": n_total, "effects": [list(e) for e in ev][:8]}, cap=2)
    shutil.rmtree(root.parent, ignore_errors=True)


def run_unit(unit: dict) -> dict:
    acc = Acc()
    for idx in range(unit["start"], unit["start"] + unit["n"]):
        run_case(acc, unit["seed"], idx)
    acc.merge_counts(harness.COUNTERS.take())
    return acc.result()


def replay(case: dict) -> dict:
    acc = Acc()
    run_case(acc, case["seed"], case["idx"])
    acc.merge_counts(harness.COUNTERS.take())
    return acc.result()

"""C11 — modification dates are stamped on exactly the notes that were edited.

For every `db reindex` run of a recorded edit history the monitor takes, from
outside: the previous index state (raw sqlite rows), file_hash.json, the file
bytes before and after, and the rows after.  A small model of the iff in the
statement predicts the stamped set and the exact new first lines; both
directions (missed stamp, spurious stamp) are judged, every other line must be
byte-identical, file and index must agree afterwards, and an immediately
repeated reindex must change nothing.
"""

from __future__ import annotations

import datetime as dt
import hashlib
import shutil
from pathlib import Path

from zmon import db, harness, histrun
from zmon.gen import history as hg
from zmon.gen import page as pg
from zmon.mon.effects import TRACER
from zmon.props.c05 import multiset_diff, describe_diff, _fields
from zmon.res import Acc, rng_for

ID = "C11"
LEVEL = "exploration"
RULE = (
    "seeded edit histories over 2-5 calendar days (edits to bodies, bullets, kinds, priorities; notes stamped on earlier "
    "days; new notes with/without ZID; untouched neighbours; header-only and section-only edits; cut-and-paste between "
    "pages; reindex with and without explicit paths, each immediately repeated). distinct = distinct per-reindex signatures "
    "(#processed pages, #stamped, #already-dated-today, #new notes, #moved-in notes, #restamped); non-trivial = reindex run "
    "that processed >= 1 changed page."
)
ASSUMPTIONS = [
    "previous index state = raw sqlite rows of the page read before the command; 'today' = the frozen day of the run",
    "the changed file is compiled with the real compiler to obtain its notes (C01's property)",
]
REQUIRED_COUNTERS = ["enter._check_for_modified_notes", "enter.update_note_modify_dates", "enter._add_or_update_modify_date", "stamps.expected", "stamps.observed"]
MIN_JUDGED = {"quick": 80, "thorough": 1500}
FINDING_EQ_PREFIX = "C11-explicit-yymmdd-equal-to-create-date"


def setup_worker() -> None:
    import zorg.service.handlers as h

    for n in ("_check_for_modified_notes", "update_note_modify_dates", "_add_or_update_modify_date", "reindex_database"):
        harness.COUNTERS.watch_attr(h, n)
    TRACER.install()


def plan(tier: str, seed: int) -> list[dict]:
    n = 48 if tier == "quick" else 600
    per = 3 if tier == "quick" else 10
    return [{"kind": "hist", "start": s, "n": per, "seed": seed} for s in range(0, n, per)]


def expected_stamp_line(line: str, ymd: str) -> str:
    prefix, mod, zid, rest = hg.first_line_parts(line)
    return prefix + " ".join([ymd] + ([zid] if zid else []) + rest)


def judge_reindex(acc: Acc, o: histrun.ReindexObs, echo: histrun.ReindexObs, case: dict) -> None:
    today = o.day
    ymd = today.strftime("%y%m%d")
    considered = list(o.files_before) if o.paths is None else o.paths
    processed = [r for r in considered if o.hash_before.get(r) != hashlib.sha256(o.files_before[r].encode()).hexdigest()]
    acc.judged += 1
    n_exp = n_obs = n_today = n_new = n_moved = n_restamp = 0
    for r in o.files_before:
        before, after = o.files_before[r], o.files_after.get(r)
        if after is None:
            acc.violation(f"{r} disappeared during reindex", case, cls="page disappeared")
            continue
        if r not in processed:
            if before != after:
                acc.violation(f"{r} was not a changed page of this run but its bytes changed", case, cls="unprocessed page rewritten")
            continue
        recs = o.compiled_before.get(r)
        if recs is None:
            acc.not_judged += 1
            continue
        old = {x["zid"]: x for x in o.rows_before if x["page"] == r and x["zid"]}
        bl, al = before.split("\n"), after.split("\n")
        if len(bl) != len(al):
            acc.violation(f"{r}: line count changed {len(bl)} -> {len(al)}", case, cls="line count changed by reindex")
            continue
        expect_lines = list(bl)
        stamped = set()
        free = set()  # lines that legitimately change for another reason (ZID write-back: C05's rule)
        for n in recs:
            i = n["line"] - 1
            if n["zid"] is None:
                free.add(i)
                n_new += 1
                continue
            prev = old.get(n["zid"])
            if prev is None:
                n_moved += 1
                continue
            changed = n["body"] != prev["body"] or (n["kind"], n["priority"]) != (prev["kind"], prev["priority"])
            if changed and n["modify"] == today.isoformat():
                n_today += 1
            if changed and n["modify"] != today.isoformat():
                stamped.add(n["zid"])
                expect_lines[i] = expected_stamp_line(bl[i], ymd)
                if hg.first_line_parts(bl[i])[1] is not None:
                    n_restamp += 1
        n_exp += len(stamped)
        by_line = {n["line"] - 1: n for n in recs}
        for i, (b, a, e) in enumerate(zip(bl, al, expect_lines)):
            if i in free:
                continue
            if a == e:
                if a != b:
                    n_obs += 1
                continue
            n_ = by_line.get(i)
            if e != b:
                acc.violation(f"{r}:{i + 1}: note {n_['zid'] if n_ else '?'} was edited (previous index state differs, not dated {today}) but its line is {a!r}, expected {e!r}", case, cls="missed or malformed stamp in file")
            elif n_ is not None and a != b:
                n_obs += 1
                acc.violation(f"{r}:{i + 1}: note {n_['zid']} was NOT edited w.r.t. the previous index state (or is new to the page / already dated today) but its line changed: {b!r} -> {a!r}", case, cls="spurious stamp / unrelated first line changed")
            else:
                acc.violation(f"{r}:{i + 1}: a line that is not a note's first line changed: {b!r} -> {a!r}", case, cls="unrelated line changed by reindex")
        # index side
        rows = {x["zid"]: x for x in o.rows_after if x["page"] == r and x["zid"]}
        for n in recs:
            if n["zid"] is None or n["zid"] not in rows:
                continue
            row = rows[n["zid"]]
            if n["zid"] in stamped:
                if row["modify"] != today.isoformat():
                    acc.violation(f"{r}: note {n['zid']} edited but its indexed modify date is {row['modify']}, not {today}", case, cls="missed stamp in index")
            elif row["modify"] != n["modify"]:
                acc.violation(f"{r}: note {n['zid']} not edited but its indexed modify date changed {n['modify']} -> {row['modify']}", case, cls="spurious stamp in index")
    # agreement file <-> index for processed pages
    if processed:
        root = case["_root"]
        files_recs = []
        for r in processed:
            c = harness.compile_path(root, Path(r))
            if c.exc is None and not c.parser_errors:
                files_recs.extend(db.page_recs(c.page, root))
            else:
                acc.violation(f"{r} is not compilable after the reindex: {c.exc or c.parser_errors[:1]}", case, cls="page broken by reindex")
        idx_recs = [x for x in o.rows_after if x["page"] in processed]
        oa, ob = multiset_diff(files_recs, idx_recs, db.NOTE_KEYS)
        if oa or ob:
            fin = None
            da, dbb = [dict(x) for x in oa], [dict(x) for x in ob]
            if len(da) == len(dbb) and _only_eq_prefix(da, dbb, ymd):
                fin = FINDING_EQ_PREFIX
            acc.violation("after stamping, files vs index: " + describe_diff(oa, ob, "files", "index"), case, cls="file and index disagree after reindex (" + _fields(oa, ob) + ")", finding=fin)
    acc.count("stamps.expected", n_exp)
    acc.count("stamps.observed", n_obs)
    # echo: the immediately repeated run changes nothing
    if echo is not None:
        if echo.rc != 0:
            acc.violation(f"repeated reindex failed: {echo.err[-200:]}", case, cls="repeated reindex fails")
        else:
            ch = [r for r in echo.files_before if echo.files_after.get(r) != echo.files_before[r]]
            if ch:
                acc.violation(f"an immediately repeated reindex changed {ch}", case, cls="repeated reindex changes files")
            oa, ob = multiset_diff(echo.rows_after, echo.rows_before, db.NOTE_KEYS)
            if oa or ob:
                acc.violation("an immediately repeated reindex changed the index: " + describe_diff(oa, ob, "after", "before"), case, cls="repeated reindex changes the index")
    if processed:
        acc.sig((len(processed), min(n_exp, 4), min(n_today, 2), min(n_new, 2), min(n_moved, 2), min(n_restamp, 2), o.paths is not None))


def _only_eq_prefix(da, dbb, ymd: str) -> bool:
    """Known mechanism: the note was written with an explicit YYMMDD equal to its
    creation date; on stamping, the indexed body keeps that old YYMMDD behind the
    new one while the file line has it replaced."""
    import json

    idx = {json.loads(x["zid"]): x for x in dbb}
    for f in da:
        z = json.loads(f["zid"])
        if z not in idx:
            return False
        i = idx[z]
        diff = {k for k in f if f[k] != i[k]}
        if diff != {"body"}:
            return False
        fb, ib = json.loads(f["body"]), json.loads(i["body"])
        fw, iw = fb.split(" "), ib.split(" ")
        # file: YMD ZID rest…   index: YMD OLD ZID rest…  with OLD == the ZID's own date
        if not (len(iw) == len(fw) + 1 and iw[0] == fw[0] == ymd and iw[2:] == fw[1:] and iw[1] == z[:6]):
            return False
    return True


def run_case(acc: Acc, seed: int, idx: int) -> None:
    rng = rng_for(ID, seed, idx)
    root = harness.notes_root("c11", idx)  # (some directories are reached through a symlink / a '..' component)
    opts = pg.GenOpts(max_items=3, max_blocks=2, allow_mod_without_zid=False, p_zid=rng.choice([0.6, 0.9, 1.0]), p_mod=0.4, p_mod_equals_create=(0.35 if idx % 2 else 0.0))
    allow = set(histrun.ALL_STEPS) - {"delete_page", "rename_page", "add_page", "break_page", "repair_page", "restore_page"}
    run = histrun.Runner(rng, root, opts, allow=allow, n_pages=rng.choice([2, 3]))
    acc.evaluations += 1
    case = {"seed": seed, "idx": idx}
    if not run.setup():
        if run.failed:
            acc.inconclusive.append(run.failed)
        else:
            acc.generator_invalid += 1
        return
    kinds = histrun.gen_history(rng, rng.randint(6, 16), allow)
    # every reindex is immediately repeated with the same arguments
    for k in kinds + ["reindex"]:
        if run.failed:
            break
        before = len(run.reindex_obs)
        run.do(k)
        if len(run.reindex_obs) > before and not run.failed:
            o = run.reindex_obs[-1]
            echo = run.reindex([root / p for p in o.paths] if o.paths is not None else None)
            c = dict(case, history=run.log, initial_files=run.initial_files)
            c["_root"] = root
            judge_reindex(acc, o, echo, c)
            for v in acc.violations:
                v["case"].pop("_root", None)
    if run.failed:
        acc.violation(f"history aborted: {run.failed}", dict(case, history=run.log, initial_files=run.initial_files), cls="reindex fails during a history of valid edits")
    acc.sample({"history": run.log[:14]}, cap=1)
    shutil.rmtree(root.parent, ignore_errors=True)


def run_unit(unit: dict) -> dict:
    acc = Acc()
    for idx in range(unit["start"], unit["start"] + unit["n"]):
        run_case(acc, unit["seed"], idx)
    acc.merge_counts(harness.COUNTERS.take())
    return acc.result()


def replay(case: dict) -> dict:
    acc = Acc()
    run_case(acc, case["seed"], case["idx"])
    acc.merge_counts(harness.COUNTERS.take())
    return acc.result()

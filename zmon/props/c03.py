"""C03 — a WHERE filter returns exactly the indexed notes that satisfy it.

Indexes are built by the real `db create` from hostile generated corpora; the
universe is read independently with sqlite3; every filter is executed through
the real ``repo.get_notes_by_query`` on both entry routes (structure passed
directly, and the structure compiled from its text) and decided by the
three-valued reference evaluator (``zmon.ref.filter``).  A model-free monitor
checks the complement law between X and !X directly on the real results.
"""

from __future__ import annotations

import dataclasses
import datetime as dt
import shutil
from pathlib import Path

from zmon import db, harness
from zmon.gen import corpus as cg
from zmon.gen import query as qg
from zmon.mon import listeners
from zmon.mon.clock import frozen
from zmon.ref import filter as rf
from zmon.res import Acc, rng_for

ID = "C03"
LEVEL = "exploration"
TODAY = dt.date(2031, 3, 14)
RULE = (
    "seeded hostile corpora (2-5 pages with confusable names in sub-directories, shared/near-miss tags, property values of "
    "every type incl. malformed, dates clustered around range ends, bodies with % _ \\ and quotes, links of every kind incl. "
    "ID/RID/ZID indirection) indexed by the real db create x seeded filter structures (every atom kind, operators = < <= > "
    ">=, negation, nesting depth <= 3) + every single-atom filter over a hostile-literal list with its negation. distinct = "
    "distinct (filter feature set, result-size bucket) signatures; non-trivial = filter matches neither nothing nor everything."
)
ASSUMPTIONS = [
    "universe = rows of .zorg/zorg.db read with the stdlib sqlite3 module after the real `db create`",
    "typed comparisons against stored values that are not cleanly of that type are 'unknown' (three-valued): must ⊆ result ⊆ must ∪ unknown",
    "not judged: letter case of f= globs and [[page]] names (all generated lower-case), result order",
]
REQUIRED_COUNTERS = ["enter.to_sql_select", "enter.link_filters", "enter.desc_filters", "enter.property_filters", "enter.file_filters", "enter.date_ranges", "enter.or_filters", "cli.query_runs"]
MIN_JUDGED = {"quick": 1500, "thorough": 30000}
MAX_INVALID_FRAC = 0.12


def setup_worker() -> None:
    import zorg.storage.sql._query_converter as qc

    listeners.install()
    harness.COUNTERS.watch_attr(qc, "to_sql_select")
    for n in ("link_filters", "desc_filters", "property_filters", "file_filters", "date_ranges", "or_filters", "tags", "note_type", "priority_range"):
        harness.COUNTERS.watch_attr(qc._AndFilterToSqlWhere, n)


def plan(tier: str, seed: int) -> list[dict]:
    n_idx, n_q = (32, 60) if tier == "quick" else (400, 150)
    return [{"kind": "index", "idx": i, "nq": n_q, "seed": seed} for i in range(n_idx)]


def single_atom_cases(gen: qg.QGen, pools: dict):
    """Every single-atom filter over hostile literals, with its negated form."""
    M, T = gen.M, gen.T
    out = []

    def one(**f):
        return M.WhereOrFilter([M.WhereAndFilter(**f)])

    for lit in ["50%", "a_b", "a\\b", "100%_done", "%", "_", "\\", "a%b", "50", "foo", "Foo", "FOO", "dog's", "note_1", "NOTE_1", "Note_1", "x_", "_x", "(foo)", "foo.bar", "0%", "%_", "b\\", "A_b", "fo", "o"]:
        for cs in (None, True):
            pos = one(desc_filters={M.DescFilter(lit, cs, T.DescOperator.CONTAINS)})
            neg = one(desc_filters={M.DescFilter(lit, cs, T.DescOperator.NOT_CONTAINS)})
            out.append((f"desc{'c' if cs else ''}:{lit}", pos, neg, "complement"))
    for name in pools["files"]:
        for glob in {name + ".zo", name + "*", "*" + name.split("/")[-1] + ".zo", "*" + name.split("/")[-1][:2] + "*", name[:1] + "*"}:
            out.append((f"file:{glob}", one(file_filters={M.FileFilter(glob, False)}), one(file_filters={M.FileFilter(glob, True)}), "complement"))
    for name in pools["links"]:
        out.append((f"link:{name}", one(link_filters={M.LinkFilter(name, False)}), one(link_filters={M.LinkFilter(name, True)}), "complement"))
    for t in pools["idents"]:
        for attr in ("areas", "contexts", "people", "projects"):
            out.append((f"tag:{attr}:{t}", one(**{attr: {t}}), one(**{attr: {"-" + t}}), "complement"))
    for k in pools["keys"]:
        ex = M.PropertyFilter(k, "", T.PropertyOperator.EXISTS, T.PropertyValueType.INTEGER, False)
        out.append((f"exists:{k}", one(property_filters={ex}), one(property_filters={dataclasses.replace(ex, negated=True)}), "complement"))
        for vt, vals in ((T.PropertyValueType.INTEGER, ["10", "42"]), (T.PropertyValueType.DATE, ["2031-03-14", "2024-01-01"]), (T.PropertyValueType.STRING, ["foo", "Done"])):
            for v in vals:
                for op in (T.PropertyOperator.EQ, T.PropertyOperator.LT, T.PropertyOperator.LE, T.PropertyOperator.GT, T.PropertyOperator.GE):
                    pf = M.PropertyFilter(k, v, op, vt, False)
                    out.append((f"cmp:{k}:{op.name}:{v}", one(property_filters={pf}), one(property_filters={dataclasses.replace(pf, negated=True)}), ("within-exists", k)))
    return out


def run_index(acc: Acc, seed: int, idx: int, nq: int, only=None) -> None:
    from zorg.storage.sql import SQLSession

    rng = rng_for(ID, seed, f"i{idx}")
    with frozen(TODAY):
        z, pools = cg.gen_corpus(rng, TODAY)
        root = harness.fresh_dir("c03") / "org"
        root.mkdir()
        z.write(root)
        r = db.cli(root, "db", "create")
        if r.rc != 0:
            acc.inconclusive.append(f"index {idx}: db create failed rc={r.rc} {r.err[-200:]}")
            return
        if idx % 3 == 2:
            # "every index content" includes indexes that were updated incrementally: remove some links /
            # tags / notes / a whole page, then `db reindex` (leaves orphan link and tag rows behind)
            import re as _re
            from zmon.gen import history as hg

            rels = sorted(z.pages)
            if len(rels) > 1 and rng.random() < 0.5:
                (root / rels[-1]).unlink()
                rels = rels[:-1]
            for rel_ in rels:
                f = root / rel_
                t = f.read_text()
                if rng.random() < 0.7:
                    t = _re.sub(r" \[\[[^\]\n]*\]\]", "", t, count=rng.randint(1, 6))
                if rng.random() < 0.5:
                    t = _re.sub(r" [#@%+][A-Za-z_0-9]+", "", t, count=rng.randint(1, 4))
                lines, items = hg.scan(t)
                if items and rng.random() < 0.4:
                    s_, e_ = rng.choice(items)
                    del lines[s_:e_]
                    t = "\n".join(lines)
                f.write_text(t)
            r = db.cli(root, "db", "reindex")
            if r.rc != 0:
                acc.inconclusive.append(f"index {idx}: db reindex after edits failed rc={r.rc} {r.err[-200:]}")
                return
            acc.count("incrementally_updated_indexes")
        dump = db.dump_index(root)
        if dump.problems:
            acc.inconclusive.append(f"index {idx}: {dump.problems[:2]}")
            return
        rf.TODAY = TODAY
        uni = rf.Universe(dump.notes)
        all_z = {n["zid"] for n in dump.notes}
        files = {rel: (root / rel).read_text() for rel in z.pages if (root / rel).exists()}
        db.fresh_process_state()
        with SQLSession(root, db.db_url(root)) as s:

            def run(where):
                return {n.zid for n in s.repo.get_notes_by_query(where)}

            def judge(label, where, text, feats):
                acc.evaluations += 1
                case = {"seed": seed, "idx": idx, "label": label, "text": text}
                try:
                    got = run(where)
                except Exception as e:
                    acc.judged += 1
                    acc.violation(f"[{label}] executing the filter raised {type(e).__name__}: {str(e)[:300]}", case, cls=f"filter execution raised {type(e).__name__}")
                    return None
                must, unknown = rf.evaluate(where, uni)
                acc.judged += 1
                missing = must - got
                extra = got - must - unknown
                if missing or extra:
                    ex = {}
                    byz = dump.by_zid()
                    for zz in list(missing)[:1] + list(extra)[:1]:
                        nn = byz[zz]
                        ex[zz] = {k: nn[k] for k in ("page", "kind", "priority", "body", "create", "modify", "areas", "contexts", "people", "projects", "links", "props")}
                    acc.violation(f"[{label}] {text or where!r}: {len(missing)} satisfying notes missing, {len(extra)} non-satisfying notes returned; e.g. {ex}", dict(case, files=files), cls="filter result differs: " + ("generated filter" if label.startswith("q") and label[1:].isdigit() else label.split(":")[0]) + (" missing" if missing else "") + (" extra" if extra else ""))
                size = "none" if not got else ("all" if got == all_z else ("some"))
                if size == "some":
                    acc.sig((tuple(sorted(feats)), min(len(got), 8)))
                return got

            # generated filters, both entry routes
            import zorg.service.compiler._api as api

            for qi in range(nq):
                if only is not None and only != f"q{qi}":
                    continue
                qr = rng_for(ID, seed, f"i{idx}q{qi}")
                gen = qg.QGen(qr, TODAY, max_depth=3, **pools)
                text, where = gen.or_filter(0)
                feats = {f.split("-depth")[0] for f in gen.features}
                got = judge(f"q{qi}", where, "W " + text, feats)
                listeners.QUERY.reset()
                try:
                    q2 = api.build_zorg_query("W " + text)
                except Exception:
                    q2 = None
                if q2 is None or listeners.QUERY.parser_errors or listeners.QUERY.lexer_errors:
                    acc.generator_invalid += 1
                    continue
                if got is not None:
                    try:
                        got2 = run(q2.where)
                    except Exception as e:
                        acc.violation(f"[q{qi}] text route raised {type(e).__name__}: {e}", {"seed": seed, "idx": idx, "label": f"q{qi}", "text": text}, cls="text route raised")
                        continue
                    if got2 != got:
                        acc.violation(f"[q{qi}] 'W {text}': compiled-from-text filter returns {len(got2)} notes, structure route {len(got)}", {"seed": seed, "idx": idx, "label": f"q{qi}", "text": text}, cls="text route and structure route disagree")
                if got is not None and qi % 12 == 5 and "{" not in text and "}" not in text:
                    # (braces belong to saved-query references at the command line, C15's subject; literals holding them are skipped here)
                    # the user-level route: `zorg query 'S note W … G none'` must print exactly those notes
                    from zmon.gen import history as hg

                    # three spellings a user may type: full, without the S clause, bare filter (the command line adds 'W ')
                    form = [f"S note W {text} G none", f"W {text} G none", text][(qi // 12) % 3]
                    if form.startswith("-"):
                        form = "W " + form  # (a bare filter starting with the kind character '-' would be an option for the argument parser)
                    rq = db.cli(root, "query", form)
                    acc.count("cli.query_runs")
                    zs = {hg.first_line_parts(l)[2] for l in rq.out.split("\n") if hg.ITEM_START.match(l)}
                    if rq.rc != 0 or zs != set(got):
                        acc.violation(f"[q{qi}] `zorg query {form!r}` rc={rq.rc} prints {len(zs)} notes, the filter selects {len(got)}: only CLI {sorted(zs - set(got))[:3]} only filter {sorted(set(got) - zs)[:3]} {rq.err[-200:]}", {"seed": seed, "idx": idx, "label": f"q{qi}", "text": text}, cls="CLI query prints other notes than the filter selects")
                if len(acc.samples) < 2 and got:
                    acc.sample({"filter": "W " + text, "universe": len(all_z), "returned": sorted(got)[:5], "n_returned": len(got)})
            # the bare spellings a user types at the command line, one existence filter per property key
            # (keys starting with the clause letters included): `zorg query 'Who:*'`, `zorg query 'W Who:*'`
            if only is None:
                from zmon.gen import history as hg

                for key in sorted({k for n in dump.notes for k in n["props"]}):
                    want = {n["zid"] for n in dump.notes if key in n["props"]}
                    for form in (f"{key}:*", f"W {key}:*", f"{key}:* G none"):
                        rq = db.cli(root, "query", form)
                        acc.count("cli.bare_query_runs")
                        zs = {hg.first_line_parts(l)[2] for l in rq.out.split("\n") if hg.ITEM_START.match(l)}
                        if rq.rc != 0 or zs != want:
                            acc.violation(f"`zorg query {form!r}` rc={rq.rc} prints {len(zs)} notes, {len(want)} notes carry the property {key}: only CLI {sorted(zs - want)[:3]} missing {sorted(want - zs)[:3]} {rq.err[-200:]}", {"seed": seed, "idx": idx, "label": f"bare:{form}"}, cls="CLI query prints other notes than the filter selects")
            # single-atom filters with their negation: reference + model-free complement law
            gen0 = qg.QGen(rng, TODAY, **pools)
            for label, pos, neg, law in single_atom_cases(gen0, pools):
                if only is not None and only != label:
                    continue
                a = judge(label, pos, None, {label.split(":")[0]})
                b = judge("!" + label, neg, None, {"!" + label.split(":")[0]})
                if a is None or b is None:
                    continue
                acc.count("complement_law_checks")
                case = {"seed": seed, "idx": idx, "label": label}
                if law == "complement":
                    if a & b or (a | b) != all_z:
                        acc.violation(f"[{label}] negated form is not the complement: |X|={len(a)} |!X|={len(b)} overlap={len(a & b)} uncovered={len(all_z - (a | b))}", dict(case, files=files), cls=f"complement law broken: {label.split(':')[0]}")
                else:
                    key = law[1]
                    have = {n["zid"] for n in dump.notes if key in n["props"]}
                    if a & b or not (a | b) <= have:
                        acc.violation(f"[{label}] comparison and its negation overlap or leave the notes having the property: overlap={len(a & b)} outside={len((a | b) - have)}", dict(case, files=files), cls="negated comparison law broken")
        db.fresh_process_state()
        shutil.rmtree(root.parent, ignore_errors=True)


def run_unit(unit: dict) -> dict:
    acc = Acc()
    run_index(acc, unit["seed"], unit["idx"], unit["nq"])
    acc.merge_counts(harness.COUNTERS.take())
    return acc.result()


def replay(case: dict) -> dict:
    acc = Acc()
    run_index(acc, case["seed"], case["idx"], 400, only=case["label"].lstrip("!"))
    acc.merge_counts(harness.COUNTERS.take())
    return acc.result()

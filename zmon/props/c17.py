"""C17 — `action open` offers and opens exactly the link targets on the line.

In-process CLI ``main()`` with captured stdout; a stub ``open`` executable
first on PATH records named-URL launches; effect tracer (no file written except
template initialisation of a missing link target).  Oracle: a word-level model
of the statement for the target list + the metamorphic single-target law +
resolution against the raw sqlite universe.
"""

from __future__ import annotations

import datetime as dt
import os
import re
import shutil
from pathlib import Path

from zmon import db, harness
from zmon.gen import page as pg
from zmon.mon.clock import frozen
from zmon.mon.effects import TRACER
from zmon.res import Acc, rng_for

ID = "C17"
LEVEL = "exploration"
TODAY = dt.date(2031, 3, 14)
RULE = (
    "seeded lines (every kind prefix, +/- priority, YYMMDD, primary ZID of 2/3 characters, 0-5 targets of mixed kinds — page "
    "links plain/anchored/in sub-directories/missing, [^local], [#global], [@ref], [!named-url], secondary ZIDs — surrounded by "
    "punctuation from ( ) , . ? ! ; :, fillers incl. look-alikes) in .zo and .zoq pages of an indexed directory, every option "
    "index 1..n, -1 and n+1. distinct = distinct (file type, prefix shape, ordered target-kind tuple, punctuation used) "
    "signatures; non-trivial = line has >= 2 targets."
)
ASSUMPTIONS = [
    "not judged: z:: cite keys (external program), targets glued to other text without a space, targets inside the prefix position of a line that has no primary ZID",
    "owner pages of ZID / ID / RID targets are read from the raw sqlite rows",
]
REQUIRED_COUNTERS = ["enter.run_action_open", "enter._open_link", "prompt_lines", "single_target_law_checks"]
MIN_JUDGED = {"quick": 1000, "thorough": 20000}
PROTO = re.compile(r"^(EDIT|SEARCH|PROMPT|ECHO) ")
SEARCH_END = "\\ze\\(\\s\\|[),.?!;:]\\|$\\)"


def setup_worker() -> None:
    import zorg.app.runners._run_action as ra

    harness.COUNTERS.watch_attr(ra, "run_action_open")
    harness.COUNTERS.watch_attr(ra, "_open_link")
    TRACER.install()
    # stub `open` first on PATH
    bindir = harness.scratch() / "bin"
    bindir.mkdir(exist_ok=True)
    stub = bindir / "open"
    stub.write_text("#!/bin/sh\necho \"$@\" >> \"$ZMON_OPEN_LOG\"\nexit 0\n")
    stub.chmod(0o755)
    os.environ["PATH"] = str(bindir) + os.pathsep + os.environ.get("PATH", "")
    os.environ["ZMON_OPEN_LOG"] = str(harness.scratch() / "open.log")


def plan(tier: str, seed: int) -> list[dict]:
    n_dirs, n_lines = (16, 90) if tier == "quick" else (200, 150)
    return [{"kind": "dir", "idx": i, "nlines": n_lines, "seed": seed} for i in range(n_dirs)]


def build_dir(rng, root: Path):
    """A small indexed directory with ZID / ID / RID owners spread over pages."""
    pages = {"a.zo": [], "sub/b.zo": [], "c_d.zo": [], "sub/a.zo": [], "d2/b.zo": []}  # (same base names in different directories)
    owners = {"zid": [], "ID": [], "RID": [], "URL": []}
    n = 0
    for rel in pages:
        lines = [f"# Page {rel}", ""]
        for i in range(rng.randint(3, 6)):
            n += 1
            z = pg.rand_zid(rng, dt.date(2024, 1, 1) + dt.timedelta(days=n), three=(n % 4 == 0))
            words = [rng.choice(["-", "o", "o P2", "x"]), z, f"note{n}"]
            owners["zid"].append((z, rel))
            r = rng.random()
            if r < 0.3:
                words.append(f"ID::gid{n}")
                owners["ID"].append((f"gid{n}", rel))
            elif r < 0.5:
                words.append(f"RID::rid{n}")
                owners["RID"].append((f"rid{n}", rel))
            elif r < 0.65:
                words += [f"ID::url{n}", "https://example.com/p%s"]
                owners["URL"].append((f"url{n}", "https://example.com/p%s"))
            lines.append(" ".join(words))
        pages[rel] = lines
    # coincidences: the value of an ID / RID also appears under ANOTHER property key on another page
    rels = sorted(pages)
    originals = {key: list(owners[key]) for key in ("ID", "RID", "URL")}  # (owners gained below are not decoyed again)
    for key in ("ID", "RID", "URL"):
        for val, owner_rel in originals[key]:
            if rng.random() < 0.5:
                other = rng.choice([r for r in rels if r != owner_rel])
                n += 1
                z = pg.rand_zid(rng, dt.date(2024, 6, 1) + dt.timedelta(days=n))
                owners["zid"].append((z, other))
                pages[other].append(f"- {z} decoy{n} {rng.choice(['author', 'ref', 'see', 'IDX'])}::{val}")
            elif key in ("ID", "RID") and rng.random() < 0.6:
                # ... and on a note that has an ID / RID of its OWN under the other key (cross-key value collision):
                # [#val] must still resolve to the ID owner only, [@val] to the RID owner only
                other = rng.choice([r for r in rels if r != owner_rel])
                n += 1
                z = pg.rand_zid(rng, dt.date(2024, 6, 1) + dt.timedelta(days=n))
                owners["zid"].append((z, other))
                okey = "RID" if key == "ID" else "ID"
                pages[other].append(f"- {z} cross{n} {key}::own{n} {okey}::{val}")
                owners[key].append((f"own{n}", other))
                owners[okey].append((val, other))
    for rel, lines in pages.items():
        f = root / rel
        f.parent.mkdir(parents=True, exist_ok=True)
        f.write_text("\n".join(lines) + "\n")
    return owners


PUNCT = [("", ""), ("", ""), ("(", ")"), ("", ","), ("", "."), ("", "?"), ("", "!"), ("", ";"), ("", ":"), ("(", "),"), ("", ")."), (",", ""), (";", ""), (":", ""), ("", "("), ("?(", ").("), (".", "."), ("!", "?"), (")", "(")]  # also punctuation on the "unusual" side
FILLERS = ["foo", "see", "and", "P5", "o", "x", "240101", "1015", "~", "word.", "(aside)", "k::v", "#tag", "@ctx", "https://example.com"]


def gen_line(rng, owners, is_zoq: bool):
    """-> (line text, [model targets as (kind, printed word, payload)])"""
    words = []
    prefix_shape = []
    kind = rng.choice(["-", "o", "x", "~", "<", ">", "bullet", "bullet2", "plain"])
    if kind in ("bullet", "bullet2"):
        words += ["", ""] + (["", ""] if kind == "bullet2" else []) + [rng.choice(["*", "-"])]
        prefix_shape.append(kind)
        has_primary = False
    elif kind == "plain":
        has_primary = False
        prefix_shape.append("plain")
    else:
        words.append(kind)
        prefix_shape.append(kind)
        if kind != "-" and rng.random() < 0.5:
            words.append(f"P{rng.randint(0, 9)}")
            prefix_shape.append("P")
        has_primary = rng.random() < 0.8
        if has_primary:
            if rng.random() < 0.3:
                words.append("250101")
                prefix_shape.append("mod")
            words.append(pg.rand_zid(rng, dt.date(2025, 1, 1), three=rng.random() < 0.3))
            prefix_shape.append("zid")
    # an ordinary word ends the prefix position
    words.append(rng.choice(["text", "call", "Read"]))
    targets = []
    punct_used = set()
    for _ in range(rng.choice([0, 1, 1, 2, 2, 3, 4, 5, 5, 10, 12])):  # also more than nine targets (two-digit option numbers)
        for _f in range(rng.choice([0, 0, 1, 2])):
            words.append(rng.choice(FILLERS))
        r = rng.random()
        if r < 0.3:
            p = rng.choice(["a", "sub/b", "c_d", "missing_page", "newdir/fresh", "a", "c_d"])
            anchor = rng.choice(["", "", "#sec1", "#a_b"])
            t = ("page", f"[[{p}{anchor}]]", (p, anchor[1:]))
        elif r < 0.4:
            l = rng.choice(["lid1", "x2", "top"])
            t = ("local", f"[^{l}]", l)
        elif r < 0.55 and owners["ID"]:
            g, rel = rng.choice(owners["ID"])
            t = ("global", f"[#{g}]", (g, rel))
        elif r < 0.68 and owners["RID"]:
            g, rel = rng.choice(owners["RID"])
            t = ("ref", f"[@{g}]", (g, rel))
        elif r < 0.76 and owners["URL"]:
            g, url = rng.choice(owners["URL"])
            arg = rng.choice(["", ":arg%one"])
            t = ("url", f"[!{g}{arg}]", (g, url, arg[1:]))
        elif r < 0.8:
            t = ("global_missing", "[#nobody]", None)
        else:
            z, rel = rng.choice(owners["zid"])
            form = rng.choice(["{}", "{}", "[{}]"])
            t = ("zid", z, (z, rel))
            pre, post = rng.choice(PUNCT)
            punct_used.add(pre + "_" + post)
            words.append(pre + form.format(z) + post)
            targets.append(t)
            continue
        pre, post = rng.choice(PUNCT)
        punct_used.add(pre + "_" + post)
        words.append(pre + t[1] + post)
        targets.append(t)
    for _f in range(rng.choice([0, 1, 2])):
        words.append(rng.choice(FILLERS))
    return " ".join(words), targets, tuple(prefix_shape), tuple(sorted(punct_used))


def expected_open(root: Path, t, exists) -> tuple[list[str], int] | None:
    """Expected stdout lines and exit code for opening ONE target (None: not modelled)."""
    kind, word, payload = t
    if kind == "page":
        p, anchor = payload
        out = [f"EDIT {root}/{p}.zo"]
        if anchor:
            out.append(f"SEARCH LID::{anchor}")
        return out, 0
    if kind == "local":
        return [f"SEARCH LID::{payload}{SEARCH_END}"], 0
    if kind == "global":
        g, rel = payload
        return [f"EDIT {root}/{rel}", f"SEARCH ID::{g}{SEARCH_END}"], 0
    if kind == "ref":
        g, rel = payload
        return [f"EDIT {root}/{rel}", f"SEARCH RID::{g}{SEARCH_END}"], 0
    if kind == "zid":
        z, rel = payload
        return [f"EDIT {root}/{rel}", f"SEARCH \\s\\zs{z}"], 0
    if kind == "url":
        g, url, arg = payload
        return [f"ECHO Opening in browser: {url.replace('%s', arg.replace('%', '%20'))}"], 0
    if kind == "global_missing":
        return ["ECHO No notes found with the ID::nobody property"], 1
    return None


def run_dir(acc: Acc, seed: int, idx: int, nlines: int, only=None) -> None:
    rng = rng_for(ID, seed, f"d{idx}")
    root = harness.notes_root("c17", idx)
    with frozen(TODAY):
        owners = build_dir(rng, root)
        r = db.cli(root, "db", "create")
        if r.rc != 0:
            acc.inconclusive.append(f"db create failed rc={r.rc}")
            return
        dump = db.dump_index(root)
        zid_page = {n["zid"]: n["page"] for n in dump.notes}
        for z, rel in owners["zid"]:
            if zid_page.get(z) != rel:
                # the files are written by this check, one note per line: `rel` IS the page that holds the note
                acc.judged += 1
                acc.violation(f"the index attributes note {z} to page {zid_page.get(z)!r}, the file that contains it is {rel!r}: its ZID / ID / RID targets cannot resolve to the owning page", {"seed": seed, "idx": idx, "zid": z}, cls="indexed owner page of a note differs from the file that contains it")
                return
        snapshot = {str(f.relative_to(root)): f.read_bytes() for f in sorted(root.rglob("*.zo"))}

        # a template pattern that matches EVERY page: opening a link to an existing page must not
        # re-initialise it (C16's no-clobber, through the link-opening route)
        (root / "tmpl").mkdir(exist_ok=True)
        (root / "tmpl" / "any.zot").write_text("# Template.\n\n## Created from template for {{ parent }}\n\n################################ Inbox\n")
        cfg = db.write_config(root.parent / "cfg.yml", template_pattern_map={r"^.*\.zo$": "tmpl/any.zot"})

        def act(path: str, line_no: int, opt=None):
            args = ["action", "open", path, str(line_no)] + ([str(opt)] if opt is not None else [])
            TRACER.start(root)
            res = db.cli(root, *args, config=cfg)
            ev = TRACER.stop()
            return res, ev

        for li in range(nlines):
            if only is not None and only != li:
                continue
            lrng = rng_for(ID, seed, f"d{idx}l{li}")
            is_zoq = lrng.random() < 0.25
            line, targets, shape, punct = gen_line(lrng, owners, is_zoq)
            fname = "zoq/scratch.zoq" if is_zoq else "scratch_page.zo"
            f = root / fname
            f.parent.mkdir(exist_ok=True)
            # line 3 is the line under test; lines 5.. hold each target alone
            singles = [f"see {t[1]} here" if t[0] != "zid" else f"see {t[1]}" for t in targets]
            f.write_text("# scratch\n\n" + line + "\n\n" + "\n".join(singles) + "\n")
            case = {"seed": seed, "idx": idx, "li": li, "line": line, "file": fname}
            acc.evaluations += 1
            # in .zoq pages every ZID is a target, the primary one included
            model = list(targets)
            if is_zoq and "zid" in shape:
                pz = next(w for w in line.split(" ") if re.fullmatch(r"\d{6}#\w{2,3}", w))
                model.insert(0, ("zid_primary_zoq", pz, None))
            res, ev = act(fname, 3)
            acc.judged += 1
            out_lines = [l for l in res.out.split("\n") if l]
            bad = [l for l in out_lines if not PROTO.match(l)]
            if bad:
                acc.violation(f"line {line!r}: non-protocol output {bad[:2]}", case, cls="non-protocol output line")
                continue
            n = len(model)
            if n == 0:
                if not (len(out_lines) == 1 and out_lines[0].startswith("ECHO ")):
                    acc.violation(f"line without targets {line!r}: output {out_lines}", case, cls="line without targets does not answer with ECHO")
                continue
            if n >= 2:
                acc.count("prompt_lines")
                want = "PROMPT " + " ".join(t[1] for t in model)
                if out_lines != [want]:
                    acc.violation(f"line {line!r}: offered {out_lines}, the targets in line order are {want!r}", case, cls="PROMPT payload != ordered target list")
                    continue
            # single-target outputs (metamorphic) + modelled resolution
            single_out = []
            for k, t in enumerate(model):
                if t[0] == "zid_primary_zoq":
                    single_out.append(None)
                    continue
                j = targets.index(t) if t in targets else k
                rs, _ = act(fname, 5 + targets.index(t))
                single_out.append(([l for l in rs.out.split("\n") if l], rs.rc))
                exp = expected_open(root, t, None)
                if exp is not None and single_out[-1] != (exp[0], exp[1]):
                    acc.violation(f"single target {t[1]!r}: output {single_out[-1]}, expected {exp}", case, cls=f"target resolves wrongly: {t[0]}")
            if n == 1:
                if model[0][0] != "zid_primary_zoq" and (out_lines, res.rc) != single_out[0]:
                    acc.violation(f"line {line!r} with one target {model[0][1]!r}: output {out_lines} rc={res.rc} != opening that target alone {single_out[0]}", case, cls="single target not opened directly")
            else:
                for k in list(range(1, n + 1)) + [-1]:
                    ro, _ = act(fname, 3, k)
                    got = ([l for l in ro.out.split("\n") if l], ro.rc)
                    want_t = model[k - 1] if k > 0 else model[-1]
                    want_o = single_out[k - 1] if k > 0 else single_out[-1]
                    acc.count("single_target_law_checks")
                    if want_o is not None and got != want_o:
                        acc.violation(f"line {line!r}: option {k} -> {got}, but target #{k} alone ({want_t[1]!r}) -> {want_o}", case, cls="option k != opening the k-th target alone")
                        break
                # indices that name none of the offered targets: n+1, and the non-positive ones other than -1
                for bad in (n + 1, (0, -2, -(n + 1))[li % 3]):
                    ro, _ = act(fname, 3, bad)
                    if ro.rc == 0 or ro.out.strip():
                        acc.violation(f"line {line!r}: option {bad} (names none of the {n} offered targets) -> rc={ro.rc} out={ro.out!r}", case, cls="out-of-range option accepted")
                        break
            # frame condition: indexed pages untouched
            now = {str(p.relative_to(root)): p.read_bytes() for p in sorted(root.rglob("*.zo")) if str(p.relative_to(root)) in snapshot}
            if now != snapshot:
                acc.violation("action open changed an existing page", case, cls="existing page changed by action open")
                snapshot = now
            if n >= 2:
                acc.sig((is_zoq, shape, tuple(t[0] for t in model), punct))
            acc.sample({"line": line, "file": fname, "answer": out_lines}, cap=3)
    shutil.rmtree(root.parent, ignore_errors=True)


def run_unit(unit: dict) -> dict:
    acc = Acc()
    run_dir(acc, unit["seed"], unit["idx"], unit["nlines"])
    acc.merge_counts(harness.COUNTERS.take())
    return acc.result()


def replay(case: dict) -> dict:
    acc = Acc()
    run_dir(acc, case["seed"], case["idx"], 200, only=case["li"])
    acc.merge_counts(harness.COUNTERS.take())
    return acc.result()

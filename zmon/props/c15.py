"""C15 — a saved-query reference filters like the saved query's WHERE clause.

Recorder around the real ``expand_saved_queries`` and ``swog.execute``; oracle:
the reference evaluator applied to the surrounding filter with the saved WHERE
tree substituted as a sub-filter (recursively), plus the model-free law
result(A {q}) = result(A) ∩ result(q's WHERE); missing names must be errors.
"""

from __future__ import annotations

import datetime as dt
import re
from pathlib import Path
import shutil

from zmon import db, harness
from zmon.gen import corpus as cg
from zmon.gen import query as qg
from zmon.mon import listeners
from zmon.mon.clock import frozen
from zmon.ref import filter as rf
from zmon.res import Acc, rng_for

ID = "C15"
LEVEL = "exploration"
TODAY = dt.date(2031, 3, 14)
RULE = (
    "seeded acyclic sets of 1-6 saved query pages (S/O/G clauses in both orders around the W clause, 1-3 alternatives, nested "
    "references up to depth 4, shared sub-queries, names that are prefixes of one another) x referencing queries with 1-3 "
    "references in conjunctive and alternative contexts, executed through the real swog.execute on generated indexes. "
    "distinct = distinct (reference depth, #alternatives in referenced clauses, #references, context shape) signatures; "
    "non-trivial = the referenced clause has an effect on the result or contains an alternative."
)
ASSUMPTIONS = [
    "filter semantics themselves are C03's property; the same three-valued reference evaluator is used here",
    "saved queries always have a W clause; '{' and '}' occur only as reference brackets",
]
REQUIRED_COUNTERS = ["enter.expand_saved_queries", "enter._get_saved_where_filter", "enter.execute_with_session"]
MIN_JUDGED = {"quick": 500, "thorough": 5000}
FINDING_POOL = "C15-reference-pools-kinds-priorities"
NAMES = ["q", "q2", "foo", "foo_bar", "foob", "saved1", "inbox", "in", "a", "zz_top"]
ITEM_RE = re.compile(r"^[-ox~<>] (?:P\d )?(?:\d{6} )?(\d{6}#[0-9A-Za-z]{2,3})(?= |$)")


def setup_worker() -> None:
    import zorg.service.swog._executor as ex
    import zorg.service.swog._saved_queries as sq

    listeners.install()
    harness.COUNTERS.watch_attr(sq, "expand_saved_queries")
    harness.COUNTERS.watch_attr(sq, "_get_saved_where_filter")
    harness.COUNTERS.watch_attr(ex, "execute_with_session")


def plan(tier: str, seed: int) -> list[dict]:
    n_idx, n_sets, n_q = (32, 5, 6) if tier == "quick" else (160, 8, 8)
    return [{"kind": "index", "idx": i, "nsets": n_sets, "nq": n_q, "seed": seed} for i in range(n_idx)]


class Builder:
    def __init__(self, rng, pools, saved_may_pool: bool = True):
        self.rng = rng
        self.saved_may_pool = saved_may_pool
        self.in_saved = False
        self.gen = qg.QGen(rng, TODAY, atom_weights={"sub": 0}, **pools)
        self.gen.desc_syms = [c for c in qg.DESC_SYMS if c not in "{}"]  # braces are reference brackets only
        self.M = self.gen.M

    def and_group(self, refs: list, saved: dict):
        """-> (text, WhereAndFilter, depth, n_alt_in_refs)"""
        rng, gen = self.rng, self.gen
        fields = {k: set() for k in ("allowed_note_types", "areas", "contexts", "create_date_ranges", "desc_filters", "file_filters", "link_filters", "modify_date_ranges", "people", "property_filters", "priorities", "projects")}
        parts, subs = [], []
        depth, alts = 0, 0
        atoms = []
        for _ in range(rng.choice([0, 1, 1, 2, 3]) if refs else rng.choice([1, 1, 2, 3])):
            k = rng.choice(["kind", "prio", "tag", "tag", "prop", "desc", "file", "link", "create"])
            if self.in_saved and not self.saved_may_pool and k in ("kind", "prio"):
                k = "tag"
            t, mut = {"kind": gen.a_kind, "prio": gen.a_prio, "tag": gen.a_tag, "prop": gen.a_prop, "desc": gen.a_desc, "file": gen.a_file, "link": gen.a_link, "create": lambda: gen.a_range("create")}[k]()
            atoms.append(("atom", t, mut))
        for name in refs:
            atoms.append(("ref", name, None))
        rng.shuffle(atoms)
        for kind, t, mut in atoms:
            if kind == "atom":
                parts.append(t)
                mut(fields)
            else:
                parts.append("{" + t + "}")
                s = saved[t]
                subs.append(s["where"])
                depth = max(depth, 1 + s["depth"])
                alts = max(alts, s["alts"])
        text, af = " ".join(parts), self.M.WhereAndFilter(or_filters=subs, **fields)
        if self.in_saved and rng.random() < 0.3:
            # a saved clause written as an explicit group "( ... )": the same notes, but a different text to splice
            # ("(a) | (b)" starts with "(" and ends with ")" without being ONE group)
            empty = {k: set() for k in fields}
            inner = self.M.WhereOrFilter([af])
            PAREN_IDS.add(id(inner))
            text, af = "(" + text + ")", self.M.WhereAndFilter(or_filters=[inner], **empty)
        return text, af, depth, alts

    def or_filter(self, candidates: list, saved: dict, max_refs: int):
        rng = self.rng
        n = rng.choice([1, 1, 2, 3])
        groups = []
        budget = max_refs
        for _ in range(n):
            k = rng.choice([0, 1, 1, 2]) if candidates and budget > 0 else 0
            refs = [rng.choice(candidates) for _ in range(min(k, budget))]
            budget -= len(refs)
            groups.append(self.and_group(refs, saved))
        text = " | ".join(g[0] for g in groups)
        where = self.M.WhereOrFilter([g[1] for g in groups])
        return text, where, max(g[2] for g in groups), max([n] + [g[3] for g in groups]), sum(g[0].count("{") for g in groups)


PAREN_IDS: set = set()  # ids of the WhereOrFilter objects that stand for a written "( ... )" group of the current set


def pooling_trigger(where) -> bool:
    """True iff the textual splice of a single-alternative saved clause puts its kind
    (or priority) atoms into one and-group with other kind (or priority) atoms, where
    the grammar pools them into ONE set (known finding C15-reference-pools-kinds-priorities)."""

    def flat(af):
        kinds = 1 if af.allowed_note_types else 0
        prios = 1 if af.priorities else 0
        trig = False
        for sub in af.or_filters:
            ands = list(sub.and_filters)
            if len(ands) == 1 and id(sub) not in PAREN_IDS:  # (a written group keeps its atoms to itself)
                k, p, t = flat(ands[0])
                kinds, prios, trig = kinds + k, prios + p, trig or t
            else:
                for a in ands:
                    _k, _p, t = flat(a)
                    trig = trig or t
        return kinds, prios, trig or kinds > 1 or prios > 1

    return any(flat(a)[2] for a in where.and_filters)


def gen_set(rng, pools, saved_may_pool=True):
    """A set of saved queries in topological order (q_i may mention q_j, j > i built first)."""
    PAREN_IDS.clear()
    b = Builder(rng, pools, saved_may_pool)
    b.in_saved = True
    names = rng.sample(NAMES, rng.randint(1, 6))
    saved: dict = {}
    files: dict = {}
    for i, name in enumerate(reversed(names)):
        cands = list(saved.keys()) if rng.random() < 0.7 else []
        cands = [c for c in cands if saved[c]["depth"] < 3]
        text, where, depth, alts, _nrefs = b.or_filter(cands, saved, max_refs=2)
        saved[name] = {"text": text, "where": where, "depth": depth, "alts": alts}
        s = rng.choice(["", "S note ", "S count(note) ", "S # "])
        o, g = rng.choice(["", " O priority", " O create alpha"]), rng.choice(["", " G file", " G type priority", " G none"])
        og = o + g if rng.random() < 0.5 else g + o
        body = rng.choice(["", "\n#\n# some comment\n", "\n\n- stale result line\n"])
        files[f"zoq/{name}.zoq"] = f"# {s}W {text}{og}{body}"
    b.in_saved = False
    return b, saved, files


def run_index(acc: Acc, seed: int, idx: int, nsets: int, nq: int, only=None) -> None:
    from zorg.service import swog
    from zorg.service.swog._saved_queries import expand_saved_queries
    import zorg.service.compiler._api as api

    rng = rng_for(ID, seed, f"i{idx}")
    with frozen(TODAY):
        z, pools = cg.gen_corpus(rng, TODAY)
        root = harness.fresh_dir("c15") / "org"
        root.mkdir()
        z.write(root)
        r = db.cli(root, "db", "create")
        if r.rc != 0:
            acc.inconclusive.append(f"index {idx}: db create failed")
            return
        if idx % 3 == 1:
            from zmon.gen import history as hg

            hg.evolve_files(root, rng)
            if db.cli(root, "db", "reindex").rc != 0:
                acc.inconclusive.append(f"index {idx}: db reindex after edits failed")
                return
            acc.count("incrementally_updated_indexes")
        dump = db.dump_index(root)
        uni = rf.Universe(dump.notes)
        all_z = {n["zid"] for n in dump.notes}

        def execute(text):
            db.fresh_process_state()
            try:
                out = swog.execute(root, db.db_url(root), text)
            finally:
                db.fresh_process_state()
            zs = []
            for ln in out.split("\n"):
                m = ITEM_RE.match(ln)
                if m:
                    zs.append(m.group(1))
            return zs

        for si in range(nsets):
            srng = rng_for(ID, seed, f"i{idx}s{si}")
            b, saved, files = gen_set(srng, pools, saved_may_pool=(si % 2 == 1))
            zq = root / "zoq"
            if zq.exists():
                shutil.rmtree(zq)
            zq.mkdir()
            for rel, text in files.items():
                (root / rel).write_text(text)
            for qi in range(nq):
                label = f"s{si}q{qi}"
                if only is not None and only != label:
                    continue
                qrng = rng_for(ID, seed, f"i{idx}s{si}q{qi}")
                b.rng = qrng
                b.gen.rng = qrng
                case = {"seed": seed, "idx": idx, "label": label, "saved": files}
                acc.evaluations += 1
                if qi == nq - 1:
                    # a missing name (directly, or nested via a fresh saved query) must be an error
                    missing = qrng.choice(["nope", "q9", "fo", "foo_"])
                    if missing in saved:
                        missing += "_x"
                    nested = qrng.random() < 0.4
                    if nested:
                        (root / "zoq" / "outer_m.zoq").write_text("# W o {" + missing + "} G file\n")
                        text = "W #foo {outer_m} G none"
                    else:
                        text = "S note W #foo {" + missing + "} G none"
                    case["query"] = text
                    acc.judged += 1
                    exp = expand_saved_queries(root, text)
                    if exp is not None:
                        acc.violation(f"expand_saved_queries({text!r}) = {exp!r} although saved query {missing!r} does not exist", case, cls="missing saved query ignored by expansion")
                    try:
                        out = execute(text)
                        acc.violation(f"executing {text!r} with a missing saved query did not raise (returned {len(out)} notes)", case, cls="missing saved query not reported as an error")
                    except Exception:
                        pass
                    rcs = [db.cli(root, "query", "-s", text).rc for _ in range(2)]
                    acc.count("cli.store_in_file_runs", 2)
                    if 0 in rcs:
                        acc.violation(f"`zorg query -s {text!r}` with a missing saved query exits with {rcs} on two consecutive runs", case, cls="missing saved query not reported as an error (query -s)")
                    acc.sig(("missing", nested))
                    continue
                text_w, where, depth, alts, nrefs = b.or_filter(list(saved.keys()), saved, max_refs=3)
                if nrefs == 0:
                    acc.not_judged += 1
                    continue
                text = "S note W " + text_w + qrng.choice([" G none", " O alpha G none", " G none O create"])
                case["query"] = text
                try:
                    expanded = expand_saved_queries(root, text)
                except RecursionError as e:
                    acc.judged += 1
                    acc.violation(f"expansion of an acyclic set did not terminate: {e}", case, cls="expansion does not terminate")
                    continue
                if expanded is None:
                    acc.judged += 1
                    acc.violation(f"expansion of {text!r} failed although all referenced saved queries exist", case, cls="expansion fails for existing saved queries")
                    continue
                listeners.QUERY.reset()
                try:
                    api.build_zorg_query(expanded)
                    bad = bool(listeners.QUERY.parser_errors or listeners.QUERY.lexer_errors)
                except Exception:
                    bad = True
                plain_ok = True
                if bad:
                    # is the generated material itself rejected (without any reference)?  then not judged
                    acc.generator_invalid += 1
                    continue
                try:
                    got = execute(text)
                except Exception as e:
                    acc.judged += 1
                    acc.violation(f"executing {text!r} (expanded {expanded!r}) raised {type(e).__name__}: {e}", case, cls=f"referencing query raised {type(e).__name__}")
                    continue
                acc.judged += 1
                must, unknown = rf.evaluate(where, uni)
                gs = set(got)
                missing_, extra = must - gs, gs - must - unknown
                if missing_ or extra or len(got) != len(gs):
                    finding = None
                    if pooling_trigger(where) and len(got) == len(gs):
                        # the known mechanism explains the WHOLE discrepancy iff the result is exactly
                        # what the spliced text literally means (kinds / priorities pooled into one set)
                        lit = api.build_zorg_query(expanded).where
                        lm, lu = rf.evaluate(lit, uni)
                        if lm <= gs <= lm | lu:
                            finding = FINDING_POOL
                    acc.violation(f"{text!r} expanded to {expanded!r}: {len(missing_)} notes satisfying surrounding filter AND saved clause(s) missing, {len(extra)} others returned", case, cls="reference does not filter like the saved WHERE clause" + (" (saved clause has alternatives)" if alts > 1 else ""), finding=finding)
                if qi % 4 == 1 and not (missing_ or extra):
                    # the user-level `zorg query -s TEXT` (result stored in a temporary query page) must agree with the
                    # service at all times - also right after a referenced saved query page has been EDITED
                    def cli_store(t):
                        rq = db.cli(root, "query", "-s", t)
                        lines = [l for l in rq.out.split("\n") if l.strip()]
                        pth = Path(lines[-1]) if lines else None
                        if rq.rc != 0 or pth is None or not pth.exists():
                            return rq.rc, None
                        return rq.rc, [m.group(1) for l in pth.read_text().split("\n") for m in [ITEM_RE.match(l)] if m]

                    acc.count("cli.store_in_file_runs")
                    rc1, z1 = cli_store(text)
                    if z1 is None or sorted(z1) != sorted(got):
                        acc.violation(f"`zorg query -s {text!r}` (rc={rc1}) stores {None if z1 is None else len(z1)} notes, the service returns {len(got)}", case, cls="query -s result differs from the service result")
                    else:
                        name = re.search(r"\{(.*?)\}", text_w).group(1)
                        f_saved = root / "zoq" / f"{name}.zoq"
                        orig = f_saved.read_text()
                        f_saved.write_text("# W " + qrng.choice(["x ~", "o", "-", "P0-2", "o | -"]) + "\n")
                        try:
                            got2 = execute(text)
                            rc2, z2 = cli_store(text)
                            if z2 is None or sorted(z2) != sorted(got2):
                                acc.violation(f"after editing the saved query {name!r}: `zorg query -s {text!r}` (rc={rc2}) stores {None if z2 is None else len(z2)} notes, the service returns {len(got2)}", case, cls="query -s result is stale after a saved query was edited")
                        except Exception:
                            pass
                        finally:
                            f_saved.write_text(orig)
                if alts > 1 or (gs != all_z and gs):
                    acc.sig((depth, min(alts, 3), nrefs, text_w.count("|")))
                acc.sample({"query": text, "expanded": expanded, "saved": files, "returned": len(got)}, cap=2)
                # model-free intersection law for a purely conjunctive context: W A {q}
                if " | " not in text_w and nrefs == 1 and not unknown and not pooling_trigger(where):
                    name = re.search(r"\{(.*?)\}", text_w).group(1)
                    surround = " ".join(w for w in text_w.split(" ") if w != "{" + name + "}")
                    try:
                        a = set(execute("S note W " + surround + " G none")) if surround else set(all_z)
                        bq = "S note W " + expand_saved_queries(root, "{" + name + "}") + " G none"
                        bset = set(execute(bq))
                    except Exception:
                        continue
                    acc.count("intersection_law_checks")
                    if gs != (a & bset):
                        acc.violation(f"{text!r}: result != result(surrounding) ∩ result(saved {name!r}): {len(gs)} vs {len(a & bset)}", case, cls="intersection law broken")
        shutil.rmtree(root.parent, ignore_errors=True)


def run_unit(unit: dict) -> dict:
    acc = Acc()
    run_index(acc, unit["seed"], unit["idx"], unit["nsets"], unit["nq"])
    acc.merge_counts(harness.COUNTERS.take())
    return acc.result()


def replay(case: dict) -> dict:
    acc = Acc()
    run_index(acc, case["seed"], case["idx"], 8, 8, only=case["label"])
    acc.merge_counts(harness.COUNTERS.take())
    return acc.result()

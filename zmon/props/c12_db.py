"""C12 part 2: an ungrouped rendered note selection placed under a page header is
a valid page whose notes are exactly the selected notes (``swog.execute`` and
``refresh_zoq_file`` on generated indexes, every ordering)."""

from __future__ import annotations

import datetime as dt
import shutil
from pathlib import Path

from zmon import db, harness
from zmon.gen import page as pg
from zmon.gen import zdir as zd
from zmon.mon.clock import frozen
from zmon.ref import pagecheck as pc
from zmon.res import Acc, rng_for

TODAY = dt.date(2031, 3, 14)
ORDERS = ["alpha", "create", "modify", "priority", "type", "none", "type priority", "create alpha", ""]
WHERES = ["", "o", "-", "x ~", "o < >", "P0-4", "(o | x | ~ | < | > | -)"]


def plan(tier: str, seed: int) -> list[dict]:
    n = 16 if tier == "quick" else 240
    m = 10 if tier == "quick" else 120
    return [{"kind": "select", "idx": i, "seed": seed} for i in range(n)] + [{"kind": "select", "route": "move", "idx": i, "seed": seed} for i in range(m)]


def run_move_unit(unit: dict) -> dict:
    """Moved notes: the text `note move` writes for a note is an item that compiles to the same note
    (ZID, kind, dates, links; body words in order; tags and properties at least the indexed ones)."""
    from zmon.gen import history as hg

    acc = Acc()
    seed, idx = unit["seed"], unit["idx"]
    rng = rng_for("C12mv", seed, idx)
    with frozen(TODAY):
        opts = pg.GenOpts(max_items=4, max_blocks=2, allow_mod_without_zid=False, p_zid=1.0, p_section_meta=0.8, p_cont=0.4, symbols=False)
        z = zd.gen_zdir(rng, opts, n_pages=rng.choice([1, 2]))
        base = harness.fresh_dir("c12mv")
        root = base / "org"
        root.mkdir()
        z.write(root)
        r = db.cli(root, "db", "create")
        if r.rc != 0:
            acc.inconclusive.append(f"db create failed rc={r.rc}")
            return acc.result()
        dump = db.dump_index(root)
        files = {rel: (root / rel).read_text() for rel in z.pages}
        own = {e.zid: e for es in z.expected().values() for e in es if e.zid}
        for row in dump.notes:
            if not row["zid"] or row["zid"] not in own:
                continue
            for rel, t in files.items():
                (root / rel).write_text(t)
            dest = root / "moved_here.zo"
            dest.write_text("# Moved here\n\n")
            marker = rng.choice([None, None, None, "x", "~"])
            case = {"db": True, "route": "move", "seed": seed, "idx": idx, "zid": row["zid"], "marker": marker, "files": files}
            acc.evaluations += 1
            try:
                res = db.cli(root, "note", "move", row["zid"], "moved_here", *([marker] if marker else []))
            finally:
                db.fresh_process_state()
            if res.rc != 0:
                acc.not_judged += 1
                continue
            text = dest.read_text()
            case["rendered"] = text
            c = harness.compile_path(root, Path("moved_here.zo"))
            acc.judged += 1
            acc.count("moves.judged")
            if c.exc is not None or c.parser_errors:
                acc.violation(f"move: the text written for {row['zid']} is not a valid item: {c.exc or c.parser_errors[:2]}", case, cls="moved note text is not a valid item")
                continue
            got = c.page.notes
            if len(got) != 1:
                acc.violation(f"move: the text written for {row['zid']} compiles to {len(got)} notes", case, cls="moved note text compiles to != 1 note")
                continue
            n = got[0]
            diffs = []
            if n.zid != row["zid"]:
                diffs.append("zid")
            if pc.note_kind(n) != (marker or row["kind"]):
                diffs.append("kind")
            if n.create_date.isoformat() != row["create"] or n.modify_date.isoformat() != row["modify"]:
                diffs.append("dates")
            # links: the note's OWN links (known from the abstract page) must survive; inherited ones may or may not be carried
            if not (set(own[row["zid"]].own_tags["links"]) <= set(n.links) <= set(row["links"])):
                diffs.append("links")
            for a in ("areas", "contexts", "people", "projects"):
                if set(row[a]) - set(getattr(n, a)):
                    diffs.append(a)
            lost_p = {k: v for k, v in row["props"].items() if n.properties.get(k) != v}
            if lost_p:
                diffs.append("properties")
            ow, nw = row["body"].split(), iter(n.body.split())
            if not all(w in nw for w in ow):
                diffs.append("body")
            if marker is None and row["kind"] not in "x~-" and (n.todo_payload is None or n.todo_payload.priority != row["priority"]):
                diffs.append("priority")
            if diffs:
                acc.violation(f"move: note {row['zid']} recompiles with different {diffs}: {row['body']!r} -> {n.body!r}", case, cls="moved note recompiles differently: " + ",".join(diffs))
            inh = sum(len(row[a]) for a in ("areas", "contexts", "people", "projects"))
            first = row["body"].split(" ", 1)[0]
            acc.sig(("move", marker, row["kind"], "\n" in row["body"], min(inh, 3), min(len(row["props"]), 2), first != row["zid"]))
            acc.sample({"moved": row["zid"], "text": text[-160:]}, cap=1)
    shutil.rmtree(base, ignore_errors=True)
    acc.merge_counts(harness.COUNTERS.take())
    return acc.result()


def run_unit(unit: dict) -> dict:
    from zmon.props.c12 import FINDING_DONE_PN

    if unit.get("route") == "move":
        return run_move_unit(unit)
    acc = Acc()
    seed, idx = unit["seed"], unit["idx"]
    rng = rng_for("C12db", seed, idx)
    from zorg.service import swog

    with frozen(TODAY):
        opts = pg.GenOpts(max_items=4, max_blocks=2, allow_mod_without_zid=False)
        z = zd.gen_zdir(rng, opts, n_pages=rng.choice([1, 2, 3]))
        root = harness.fresh_dir("c12db") / "org"
        root.mkdir()
        z.write(root)
        r = db.cli(root, "db", "create")
        if r.rc != 0:
            acc.inconclusive.append(f"db create failed rc={r.rc}")
            return acc.result()
        if idx % 3 == 1:
            from zmon.gen import history as hg

            import datetime as _dt
            import re as _re

            d1 = TODAY + _dt.timedelta(days=rng.choice([1, 2, 30]))
            with frozen(d1):
                hg.evolve_files(root, rng)
                if db.cli(root, "db", "reindex").rc != 0:
                    acc.inconclusive.append("db reindex after edits failed")
                    return acc.result()
            acc.count("incrementally_updated_indexes")
            if idx % 2 == 1:
                # second round on a later day: every note that was stamped in round one is edited AGAIN
                # (its stamp is replaced, the only route on which the index body is re-assembled from words)
                stamp = d1.strftime("%y%m%d")
                n_re = 0
                for p_ in hg.zo_files(root):
                    t0 = p_.read_text()
                    t1, k = _re.subn(r"(?m)^(\s*[-ox~<>] (?:P\d )?" + stamp + r" \d{6}#\w{2,3} .*\S)[ \t]*$", r"\1 again", t0)
                    if k:
                        p_.write_text(t1)
                        c_ = harness.compile_path(root, p_.relative_to(root))
                        if c_.exc is not None or c_.parser_errors:
                            p_.write_text(t0)
                        else:
                            n_re += k
                if n_re:
                    with frozen(d1 + _dt.timedelta(days=rng.choice([1, 7]))):
                        if db.cli(root, "db", "reindex").rc != 0:
                            acc.inconclusive.append("second db reindex after edits failed")
                            return acc.result()
                    acc.count("restamped_notes", n_re)
        dump = db.dump_index(root)
        byz = dump.by_zid()
        # the notes as the compiler produces them from the pages on disk NOW (the statement speaks of "every note the compiler can produce")
        on_disk = {}
        for p_ in sorted(root.rglob("*.zo")):
            if ".zorg" in p_.parts:
                continue
            c_ = harness.compile_path(root, p_.relative_to(root))
            if c_.exc is None and not c_.parser_errors:
                for fn_ in c_.page.notes:
                    if fn_.zid:
                        on_disk[fn_.zid] = fn_
        files = {rel: (root / rel).read_text() for rel in z.pages if (root / rel).exists()}
        # own metadata by (page, line), known from the abstract pages (only for indexes built by `db create` alone)
        own_by_pl = {} if idx % 3 == 1 else {(rel, e.line_no): e for rel, es in z.expected().items() for e in es}
        # items whose text form is known not to round-trip (known finding): done todo whose body starts with Pn
        for wi, w in enumerate(WHERES):
            for oi, o in enumerate(ORDERS):
                if (wi * 3 + oi + idx) % 8 != 0:
                    continue
                q = "S note" + (f" W {w}" if w else "") + (f" O {o}" if o else "") + " G none"
                case = {"db": True, "seed": seed, "idx": idx, "query": q, "files": files}
                acc.evaluations += 1
                for route in ("execute", "zoq"):
                    db.fresh_process_state()
                    try:
                        if route == "execute":
                            out = swog.execute(root, db.db_url(root), q)
                            text = "# Results\n\n" + out + "\n"
                            name = "rendered.zo"
                            (root.parent / "render").mkdir(exist_ok=True)
                            c = harness.compile_text(text, name=name, zdir=root.parent / "render")
                        else:
                            zq = root / "zoq" / "t.zoq"
                            zq.parent.mkdir(exist_ok=True)
                            # first a broad query, then the page is re-pointed to {q} and refreshed again:
                            # the second result is (usually) SHORTER than what the page held before
                            zq.write_text("# S note G none O alpha\n# keep this header line\n")
                            swog.refresh_zoq_file(root, db.db_url(root), zq)
                            old_lines = zq.read_text().split("\n")
                            zq.write_text("\n".join([f"# {q}"] + old_lines[1:]))
                            swog.refresh_zoq_file(root, db.db_url(root), zq)
                            text = zq.read_text()
                            if not text.endswith("\n"):
                                text += "\n"  # a rendered item needs its line end to be an item
                            c = harness.compile_text(text, name="t_copy.zo", zdir=root.parent / "render")
                            if not text.startswith(f"# {q}\n# keep this header line\n"):
                                acc.violation(f"refresh_zoq_file did not keep the header lines of the query page: {text[:120]!r}", case, cls="zoq header not preserved")
                    except Exception as e:
                        acc.judged += 1
                        acc.violation(f"{route}: {q!r} raised {type(e).__name__}: {e}", case, cls=f"{route} raised {type(e).__name__}")
                        continue
                    finally:
                        db.fresh_process_state()
                    acc.judged += 1
                    if c.exc is not None or c.parser_errors:
                        acc.violation(f"{route}: rendering of {q!r} under a page header is not a valid page: {c.exc or c.parser_errors[:2]}", dict(case, rendered=text), cls="rendered selection is not a valid page")
                        continue
                    # selected notes, independently: rows satisfying the (trivial) W clause
                    sel = [n for n in dump.notes if _matches(n, w)]
                    got = c.page.notes
                    gz = [n.zid for n in got]
                    if sorted(z_ or "" for z_ in gz) != sorted(n["zid"] for n in sel):
                        acc.violation(f"{route}: {q!r}: recompiled notes {len(gz)} != selected notes {len(sel)}; extra={sorted(set(gz) - {n['zid'] for n in sel})[:3]} missing={sorted({n['zid'] for n in sel} - set(gz))[:3]}", dict(case, rendered=text), cls="recompiled selection != selected notes")
                        continue
                    for n in got:
                        row = byz[n.zid]
                        diffs = []
                        if pc.note_kind(n) != row["kind"]:
                            diffs.append("kind")
                        if n.body != row["body"]:
                            diffs.append("body")
                        fn_ = on_disk.get(n.zid)
                        if fn_ is not None:
                            acc.count("select.compared_with_page_on_disk")
                            if n.body == row["body"] and n.body != fn_.body:
                                diffs.append("body (emitted text vs the note compiled from the page on disk)")
                        if row["kind"] not in "x~-" and (n.todo_payload is None or n.todo_payload.priority != row["priority"]):
                            diffs.append("priority")
                        if n.create_date.isoformat() != row["create"] or n.modify_date.isoformat() != row["modify"]:
                            diffs.append("dates")
                        e = own_by_pl.get((row["page"], row["line"]))
                        if e is not None and all(row["props"].get(k) == v for k, v in e.own_props.items()) and n.body == row["body"]:
                            # own tags / links / properties of the emitted text (inherited ones are not part of it)
                            if dict(n.properties) != e.own_props:
                                diffs.append("own properties")
                            for a in ("areas", "contexts", "people", "projects", "links"):
                                if sorted(getattr(n, a)) != e.own_tags[a]:
                                    diffs.append("own " + a)
                            acc.count("select.own_metadata_judged")
                        if diffs:
                            fin = FINDING_DONE_PN if (diffs == ["body"] and row["kind"] in "x~" and row["body"].split(" ", 1)[0][:1] == "P") else None
                            acc.violation(f"{route}: {q!r}: note {n.zid} recompiles with different {diffs}: {row['body']!r} -> {n.body!r}", dict(case, rendered=text), cls="recompiled note differs: " + ",".join(diffs), finding=fin)
                    acc.sig(("select", route, w, o, min(len(sel), 5)))
                acc.sample({"query": q, "selected": len(sel)}, cap=1)
        shutil.rmtree(root.parent, ignore_errors=True)
    acc.merge_counts(harness.COUNTERS.take())
    return acc.result()


def _matches(n: dict, w: str) -> bool:
    if w in ("", "(o | x | ~ | < | > | -)"):
        return True
    if w == "P0-4":
        return n["priority"] in {"P0", "P1", "P2", "P3", "P4"}
    return n["kind"] in set(w.replace(" ", ""))


def replay(case: dict) -> dict:
    return run_unit({"seed": case["seed"], "idx": case["idx"], "route": case.get("route")})

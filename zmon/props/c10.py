"""C10 — `note move` relocates exactly one note and loses nothing.

Effect tracer as frame condition (writes ⊆ {source, destination}), byte
snapshots, recompilation of both pages with the real compiler; oracle: a
line-list model of removal and insertion ("once, contiguous, everything else
unchanged" — the position of the insertion is not prescribed) and ⊇ on the four
tag kinds and on properties for the moved note.
"""

from __future__ import annotations

import datetime as dt
import re
import shutil
from pathlib import Path

from zmon import db, harness
from zmon.gen import history as hg
from zmon.gen import page as pg
from zmon.gen import zdir as zd
from zmon.mon.clock import frozen
from zmon.mon.effects import TRACER
from zmon.ref import pagecheck as pc
from zmon.res import Acc, rng_for

ID = "C10"
LEVEL = "exploration"
TODAY = dt.date(2031, 3, 14)
RULE = (
    "seeded indexed directories (sections whose headers carry tags, simple and multi-word inline properties; multi-line notes; "
    "other notes mentioning the moved ZID in plain text and as [ZID]) x every kind of destination (existing page with notes / "
    "with sections / header + blank line only / ending in a multi-line item / ending in a section header, missing with a "
    "matching template, EXISTING with a matching template, the source page itself; destination named with and without .zo, "
    "relative to the notes directory while the process runs elsewhere) x marker in {none, x, ~}. distinct = distinct (destination kind, marker, "
    "moved-note shape: kind, multi-line?, #inherited tags, #inherited properties, mentioned elsewhere?) signatures; "
    "non-trivial = every successful move."
)
ASSUMPTIONS = [
    "a move is judged only when the command succeeds (exit code 0); the directory is restored to the same indexed state before every move",
    "not judged: links (the statement demands tags and properties), priority of done/cancelled notes, destinations that are not valid pages",
]
REQUIRED_COUNTERS = ["enter.add_note", "enter.delete_note", "enter._add_hidden_metadata", "moves.successful"]
MIN_JUDGED = {"quick": 300, "thorough": 8000}
FINDING_MENTION = "C10-delete-hits-first-line-mentioning-the-zid"
FINDING_MULTIWORD = "C10-inherited-multiword-property-truncated"
FINDING_HEADER_ONLY = "C10-destination-without-blank-line-after-header"
FINDING_HEADLINE = "C10-headline-bullet-property-lost-behind-inserted-metadata"


def setup_worker() -> None:
    import zorg.service.note_utils as nu
    from zorg.storage.file import FileManager

    harness.COUNTERS.watch_attr(FileManager, "add_note")
    harness.COUNTERS.watch_attr(FileManager, "delete_note")
    harness.COUNTERS.watch_attr(nu, "_add_hidden_metadata")
    TRACER.install()


def plan(tier: str, seed: int) -> list[dict]:
    n_dirs, n_moves = (20, 30) if tier == "quick" else (300, 40)
    return [{"kind": "dir", "idx": i, "nmoves": n_moves, "seed": seed} for i in range(n_dirs)]


DEST_KINDS = ["existing", "existing", "existing", "header_blank", "ends_multiline", "ends_section_header", "missing_template", "self", "header_only", "existing_template_match", "existing_template_match", "note_then_header", "note_then_h2_header", "ends_comment", "note_then_header_mid"]
TEMPLATE = "# Template for done pages.\n\n## Done log {{ name }}\n##\n## second line\n\n################################ Moved here\n"


def own_first_line_index(lines: list[str], zid: str):
    for i, l in enumerate(lines):
        if hg.ITEM_START.match(l) and hg.first_line_parts(l)[2] == zid:
            return i
    return None


def _headline_key(first_line: str, zid: str):
    """'- [Pn] [YYMMDD] ZID key:: words' -> 'key' (the word right after the note's own ZID is a bullet-style property key)"""
    ws = first_line.split()
    if zid in ws:
        i = ws.index(zid)
        if i + 1 < len(ws) and ws[i + 1].endswith("::") and not ws[i + 1].startswith("[") and len(ws[i + 1]) > 2:
            return ws[i + 1][:-2]
    return None


def run_dir(acc: Acc, seed: int, idx: int, nmoves: int, only=None) -> None:
    rng = rng_for(ID, seed, f"d{idx}")
    root = harness.notes_root("c10", idx)
    base = harness.scratch() / "c10"
    with frozen(TODAY):
        opts = pg.GenOpts(max_items=3, max_blocks=2, allow_mod_without_zid=False, p_zid=1.0, p_section_meta=0.8, p_cont=0.4, p_collision=0.05, symbols=False)
        z = zd.gen_zdir(rng, opts, n_pages=rng.choice([2, 3]))
        # sections / title lines with multi-word inline properties and plain mentions of ZIDs
        all_items = [(rel, it) for rel, p in z.pages.items() for _b, it in pg.iter_items(p)]
        if not all_items:
            acc.not_judged += 1
            return
        for rel, p in z.pages.items():
            for s in pg.iter_sections(p):
                if rng.random() < 0.35:
                    s.words.append(pg.W(f"[skey{len(s.words)}:: two words]", props=((f"skey{len(s.words)}", "two words"),), form="inline_prop"))
        mention_targets = set()
        for rel, p in z.pages.items():
            items = [it for _b, it in pg.iter_items(p)]
            for i, it in enumerate(items):
                later = [x for x in items[i + 1 :] if x.zid]
                if later and rng.random() < 0.25:
                    tgt = rng.choice(later)
                    form = rng.choice(["plain", "plain", "bracket"])
                    it.words.append(pg.W(tgt.zid if form == "plain" else f"[{tgt.zid}]", form="mention"))
                    it.words.append(pg.W("fyi"))
                    if form == "plain":
                        mention_targets.add(tgt.zid)
        # notes that link to themselves / to a longer ZID sharing their own as a prefix, and notes whose
        # first word after the ZID is a bullet-style property key ("- ZID key:: value words")
        for rel, p in z.pages.items():
            for _b, it in pg.iter_items(p):
                if not it.zid:
                    continue
                u = rng.random()
                if u < 0.12:
                    it.words.append(pg.W(f"[[{it.zid}]]", links=(it.zid,), form="self_link"))
                elif u < 0.2:
                    it.words.append(pg.W(f"[[{it.zid}{rng.choice('abXY01')}]]", form="self_prefix_link"))
                elif u < 0.24:
                    it.words.append(pg.W(f"see {it.zid} again", form="self_mention"))
                if rng.random() < 0.06:
                    it.words.append(pg.W(rng.choice(["tab\there", "col1\tcol2\tcol3", "\u00e9t\u00e9", "page\x0cbreak", "line\u2028sep", "n\x85l"]), form="plain"))
                if rng.random() < 0.1 and it.words and not it.words[0].has_meta() and not it.words[0].text.endswith("::"):
                    it.words.insert(0, pg.W("hq::", form="headline_prop"))
        # decoys: the text of an INHERITED tag embedded in a token that is not that tag
        # (bob@office, c++fast, 50%who, [#keys], +foobar for +foo, #tag2 for #tag)
        for rel, p in z.pages.items():
            exp = {e.uid: e for e in pg.render(p)[1]}
            for _b, it in pg.iter_items(p):
                e = exp.get(it.uid)
                if e is None:
                    continue
                for attr, sig in (("areas", "#"), ("contexts", "@"), ("people", "%"), ("projects", "+")):
                    inherited = sorted(set(getattr(e, attr)) - set(e.own_tags[attr]))
                    if inherited and rng.random() < 0.35:
                        t = rng.choice(inherited)
                        decoy = rng.choice([f"bob{sig}{t}", f"c{sig}{sig}{t}", f"{sig}{t}2", f"{sig}{t}_x", f"({sig}{t}x)", f"x{sig}{t}."] + ([f"[#{t}]"] if sig == "#" else []))
                        it.words.append(pg.W(decoy, form="decoy"))
        z.write(root)
        (root / "tmpl").mkdir()
        (root / "tmpl" / "done.zot").write_text(TEMPLATE)
        cfg = db.write_config(base / "cfg.yml", template_pattern_map={r"^done_(?P<name>[a-z0-9]+)\.zo$": "tmpl/done.zot"})
        for rel in z.pages:
            c = harness.compile_path(root, Path(rel))
            if c.exc is not None or c.parser_errors:
                acc.generator_invalid += 1
                return
        r = db.cli(root, "db", "create", config=cfg)
        if r.rc != 0:
            acc.inconclusive.append(f"db create failed rc={r.rc} {r.err[-200:]}")
            return
        dump = db.dump_index(root)
        snap_dir = base / "snap"
        shutil.copytree(root, snap_dir)
        rows = [n for n in dump.notes]
        for mi in range(nmoves):
            if only is not None and only != mi:
                continue
            mrng = rng_for(ID, seed, f"d{idx}m{mi}")
            # restore files (the index is untouched by `note move`)
            for f in sorted(snap_dir.rglob("*")):
                if f.is_file() and ".zorg" not in f.parts:
                    t = root / f.relative_to(snap_dir)
                    t.parent.mkdir(parents=True, exist_ok=True)
                    t.write_bytes(f.read_bytes())
            for f in sorted(root.rglob("*.zo")):
                if not (snap_dir / f.relative_to(root)).exists():
                    f.unlink()
            row = mrng.choice(rows)
            zid, src = row["zid"], row["page"]
            dk = mrng.choice(DEST_KINDS)
            marker = mrng.choice([None, None, "x", "~"])
            others = [p for p in z.pages if p != src]
            if dk == "existing" and not others:
                dk = "header_blank"
            if dk == "existing":
                dest = mrng.choice(others)
            elif dk == "self":
                dest = src
            elif dk == "missing_template":
                dest = f"done_{mrng.choice(['a1', 'log', 'x'])}.zo"
            elif dk == "existing_template_match":
                # the destination EXISTS and its name matches a configured template pattern
                dest = "done_old.zo"
                (root / dest).write_text("# Done log old\n#\n# second line\n\n- 200102#Da archived earlier\n  * keep me\n\n################################ Moved here\n- 200103#Db also archived\n")
            else:
                dest = f"dest_{dk}.zo"
                text = {
                    "header_blank": "# Dest\n\n",
                    "header_only": "# Dest\n",
                    "ends_multiline": "# Dest\n\n- 200101#Aa first\n  * bullet one\n    - deeper\n",
                    "ends_section_header": "# Dest\n\n- 200101#Aa first\n\n################################ Empty section",
                    # the last note is DIRECTLY followed (no blank line) by the header of a section without notes
                    "note_then_header": "# Dest\n\n################################ Morning\n- 200101#Aa first\n################################ Evening\n",
                    "note_then_h2_header": "# Dest\n\n- 200101#Aa first\n  * bullet\n======================== Waiting",
                    "ends_comment": "# Dest\n\n- 200101#Aa first\n# a comment closes the last block\n",
                    "note_then_header_mid": "# Dest\n\n- 200101#Aa first\n################################ Later\n\n- 200102#Ab second\n\n",
                }[dk]
                (root / dest).write_text(text)
            dest_arg = dest[:-3] if mrng.random() < 0.5 else dest
            # sequences: sometimes ANOTHER note is moved into the same destination first (not judged itself);
            # the judged move then starts from the state that move left behind
            if mrng.random() < 0.3 and dk != "self":
                others_rows = [r_ for r_ in rows if r_["zid"] != zid and r_["page"] != dest]
                if others_rows:
                    pre = mrng.choice(others_rows)
                    pr = db.cli(root, "note", "move", pre["zid"], dest_arg, config=cfg)
                    if pr.rc == 0:
                        acc.count("moves.preceded_by_another_move_into_the_same_destination")
                        if pre["page"] == src:
                            # the pre-move took lines out of the judged note's source page as well
                            pass
            case = {"seed": seed, "idx": idx, "mi": mi, "zid": zid, "src": src, "dest": dest, "dest_kind": dk, "marker": marker}
            acc.evaluations += 1
            before = {str(f.relative_to(root)): f.read_text() for f in sorted(root.rglob("*")) if f.is_file() and ".zorg" not in f.parts}
            src_before = before[src]
            dest_before = before.get(dest)
            if dest_before is None:
                dest_before = "# Done log " + dest[5:-3] + "\n#\n# second line\n\n################################ Moved here"
            args = ["note", "move", zid, dest_arg] + ([marker] if marker else [])
            TRACER.start(root)
            res = db.cli(root, *args, config=cfg)
            ev = TRACER.stop()
            if res.rc != 0:
                # every generated move names an indexed note and a usable destination: the command has no reason to fail
                acc.judged += 1
                acc.violation(f"`zorg {' '.join(args)}` fails (rc={res.rc}) although {zid} is an indexed note of {src} and {dest} is a usable destination: {res.err[-300:]} {res.exc}", case, cls="note move fails for an indexed note")
                continue
            acc.judged += 1
            acc.count("moves.successful")
            after = {str(f.relative_to(root)): f.read_text() for f in sorted(root.rglob("*")) if f.is_file() and ".zorg" not in f.parts}
            case["files_before"] = {src: src_before, dest: before.get(dest)}
            case["files_after"] = {src: after.get(src), dest: after.get(dest)}
            sl = src_before.split("\n")
            i0 = own_first_line_index(sl, zid)
            if i0 is None:
                acc.inconclusive.append(f"cannot locate {zid} in {src}")
                continue
            n_lines = len(row["body"].split("\n"))
            note_lines = sl[i0 : i0 + n_lines]
            mentioned_before = any((" " + zid + " ") in l for l in sl[:i0])
            findings = []
            # ---- frame condition
            written = {e[1] for e in ev if e[0] == "write"}
            if written - {src, dest}:
                acc.violation(f"move of {zid} wrote {sorted(written - {src, dest})}", case, cls="a third file was written")
            for k, v in before.items():
                if k not in (src, dest) and after.get(k) != v:
                    acc.violation(f"move of {zid} changed {k}", case, cls="a third file changed")
            # ---- source: exactly the note's lines removed
            if src != dest:
                want_src = "\n".join(sl[:i0] + sl[i0 + n_lines :])
                if after[src] != want_src:
                    fin = None
                    if mentioned_before:
                        j = next(k for k, l in enumerate(sl[:i0]) if (" " + zid + " ") in l)
                        if after[src] == "\n".join(sl[:j] + sl[j + n_lines :]):
                            fin = FINDING_MENTION
                    acc.violation(f"source {src} is not 'source minus exactly the lines of {zid}' (lines {i0 + 1}..{i0 + n_lines})", case, cls="source: wrong lines removed", finding=fin)
                    if fin is None:
                        continue
                    findings.append(fin)
            # ---- destination: the note once, contiguous, everything else unchanged
            dl_before = dest_before.split("\n")
            if src == dest:
                dl_before = sl[:i0] + sl[i0 + n_lines :]
            dl_after = after[dest].split("\n")
            starts = [k for k, l in enumerate(dl_after) if hg.ITEM_START.match(l) and hg.first_line_parts(l)[2] == zid]
            if src != dest and FINDING_MENTION in findings:
                pass
            if len(starts) != 1:
                acc.violation(f"destination {dest} carries the note {zid} {len(starts)} times", case, cls="destination: note not present exactly once")
                continue
            k0 = starts[0]
            rest = dl_after[:k0] + dl_after[k0 + n_lines :]
            # Only the NUMBER of blank lines directly at the insertion point may differ (a page
            # needs separators there to stay valid); every other line must be there, in order.
            head, tail = list(dl_after[:k0]), list(dl_after[k0 + n_lines :])
            while head and head[-1].strip() == "":
                head.pop()
            while tail and tail[0].strip() == "":
                tail.pop(0)
            m = len(dl_before) - len(head) - len(tail)
            same = m >= 0 and head + [""] * m + tail == dl_before
            if not same:
                lost = [l for l in dl_before if l not in rest][:2]
                acc.violation(f"destination {dest}: other lines changed by the insertion (e.g. lost/changed {lost})", case, cls="destination: other lines changed")
                continue
            moved_first = dl_after[k0]
            if dl_after[k0 + 1 : k0 + n_lines] != note_lines[1:]:
                acc.violation(f"bullets / continuation lines of {zid} not preserved", case, cls="moved note: continuation lines differ")
            # the first line as WRITTEN in the source file (not as indexed): every word after the ZID is still there, in order
            fw, mw = note_lines[0].split(), moved_first.split()  # (outer / repeated blanks are not text)
            if zid in fw and zid in mw:
                it_ = iter(mw[mw.index(zid) + 1 :])
                if not all(w in it_ for w in fw[fw.index(zid) + 1 :]):
                    acc.violation(f"first line of {zid} lost text: {note_lines[0]!r} -> {moved_first!r}", case, cls="moved note: first line lost text")
            want_kind = marker or row["kind"]
            if moved_first[0] != want_kind:
                acc.violation(f"moved note has kind {moved_first[0]!r}, requested {want_kind!r}", case, cls="moved note: wrong kind")
            # ---- recompile both pages
            comp = {}
            ok = True
            for rel in {src, dest}:
                c = harness.compile_path(root, Path(rel))
                if c.exc is not None or c.parser_errors:
                    fin = FINDING_HEADER_ONLY if (rel == dest and dk == "header_only") else None
                    acc.violation(f"{rel} is not a valid page after the move: {c.exc or c.parser_errors[:1]}", case, cls="page invalid after move" + (" (destination had no blank line after its header)" if dk == "header_only" else ""), finding=fin)
                    ok = False
                else:
                    comp[rel] = c.page.notes
            if not ok:
                continue
            zs_after = sorted(n.zid or "" for rel in comp for n in comp[rel])
            def _zids_of(text):
                ls, its = hg.scan(text)
                return [hg.first_line_parts(ls[s_])[2] or "" for s_, _e in its]

            zs_before = sorted(_zids_of(src_before) + (_zids_of(before[dest]) if (dest in before and dest != src) else []))
            if zs_after != zs_before and FINDING_MENTION not in findings:
                acc.violation(f"recompiling {src} and {dest} gives ZIDs {zs_after}, before the move {zs_before}", case, cls="set of notes changed by the move")
                continue
            moved = next((n for n in comp[dest] if n.zid == zid), None)
            if moved is None:
                continue
            if pc.note_kind(moved) != want_kind:
                acc.violation(f"recompiled moved note has kind {pc.note_kind(moved)}", case, cls="moved note: wrong kind")
            for attr in ("areas", "contexts", "people", "projects"):
                lost = set(row[attr]) - set(getattr(moved, attr))
                if lost:
                    acc.violation(f"moved note lost inherited {attr} {sorted(lost)}", case, cls=f"moved note: lost {attr}")
            lost_p = {k: v for k, v in row["props"].items() if moved.properties.get(k) != v}
            hk = _headline_key(note_lines[0], zid)
            if lost_p and hk and set(lost_p) == {hk} and _headline_key(moved_first, zid) is None:
                acc.violation(f"moved note lost its headline property {hk!r}: {note_lines[0]!r} -> {moved_first!r}", case, cls="moved note: headline bullet property lost behind the inserted metadata", finding=FINDING_HEADLINE)
            elif lost_p:
                fin = FINDING_MULTIWORD if all(" " in v and moved.properties.get(k) == v.split(" ")[0] for k, v in lost_p.items()) else None
                acc.violation(f"moved note lost / changed properties {lost_p} (now {dict(moved.properties)})", case, cls="moved note: property lost or changed" + (" (multi-word value truncated)" if fin else ""), finding=fin)
            # body: original words all still there, in order, after the ZID
            ow = row["body"].split("\n")[0].split(" ")
            nw = moved.body.split("\n")[0].split(" ")
            it = iter(nw)
            if not all(w in it for w in ow):
                acc.violation(f"moved note's first line lost words: {row['body'].splitlines()[0]!r} -> {moved.body.splitlines()[0]!r}", case, cls="moved note: body words lost")
            inh_t = sum(len(row[a]) for a in ("areas", "contexts", "people", "projects"))
            acc.sig((dk, marker, row["kind"], n_lines > 1, min(inh_t, 3), min(len(row["props"]), 3), zid in mention_targets))
            acc.sample({"cmd": args, "moved_line": moved_first, "source": src, "dest": dest, "dest_kind": dk}, cap=3)
    shutil.rmtree(base, ignore_errors=True)


def run_unit(unit: dict) -> dict:
    acc = Acc()
    run_dir(acc, unit["seed"], unit["idx"], unit["nmoves"])
    acc.merge_counts(harness.COUNTERS.take())
    return acc.result()


def replay(case: dict) -> dict:
    acc = Acc()
    run_dir(acc, case["seed"], case["idx"], 60, only=case["mi"])
    acc.merge_counts(harness.COUNTERS.take())
    return acc.result()

"""C04 — query text is compiled into the structure its syntax denotes.

Recorder around the real ``build_zorg_query`` with an injected recording parser
listener (texts the real parser complains about are not judged) under a frozen
clock; oracle: the structure the text was rendered from (round trip), with an
independent calendar routine for relative dates.  ``_process_query`` (CLI
normalisation) is checked as a pure function on the same texts.
"""

from __future__ import annotations

import dataclasses
import datetime as dt
import itertools

from zmon import harness
from zmon.gen import query as qg
from zmon.mon import listeners
from zmon.mon.clock import frozen
from zmon.res import Acc, rng_for

ID = "C04"
LEVEL = "exploration"
TODAYS = [dt.date(2031, 3, 14), dt.date(2024, 1, 31), dt.date(2024, 2, 29), dt.date(2023, 12, 31), dt.date(2025, 3, 31), dt.date(2028, 8, 30)]
RULE = (
    "exhaustive: all 64 ascending priority spellings (55 sets) alone and pooled in pairs, every kind character alone and in "
    "every lexable juxtaposition up to length 3, every select form incl. count(.) and prop:key, both clause orders; seeded "
    "random query structures (filter trees of depth <= 3 with 1-4 alternatives, every atom kind, every property operator, "
    "negation, relative dates d/m/y incl. negative, ranges with/without end on ^ and $, O lists of 1-6, G lists of 1-4) "
    "rendered to text and compiled by the real build_zorg_query under six frozen 'todays' (month ends, leap day). distinct = "
    "distinct (feature set, today) signatures; non-trivial = query has a W clause or a non-default S/O/G."
)
ASSUMPTIONS = [
    "well-formed == the real ANTLR query parser and lexer report no error (recorded by the injected listeners); other texts are counted but not judged",
    "the value type of an existence filter (key:*) is not judged (there is no value to infer it from)",
]
REQUIRED_COUNTERS = ["enter._add_priorities", "enter._get_date_range", "enter._get_property_filter", "enter.exitSubfilter", "enter._process_query", "listener.query_progs", "days.executions"]
MIN_JUDGED = {"quick": 4000, "thorough": 80000}
MAX_INVALID_FRAC = 0.10


def setup_worker() -> None:
    import zorg.service.compiler._query_compiler as qc
    from zorg.app import config

    listeners.install()
    for n in ("_add_priorities", "_get_date_range", "_get_property_filter", "_add_note_types", "_get_desc_filter"):
        harness.COUNTERS.watch_attr(qc, n)
    harness.COUNTERS.watch_attr(qc.ZorgQueryCompiler, "exitSubfilter")
    harness.COUNTERS.watch_attr(config, "_process_query")


def plan(tier: str, seed: int) -> list[dict]:
    n = 6000 if tier == "quick" else 120000
    per = 250 if tier == "quick" else 2500
    units = [{"kind": "random", "start": s, "n": per, "seed": seed, "today": (s // per) % len(TODAYS)} for s in range(0, n, per)]
    for t in range(len(TODAYS) if tier == "thorough" else 2):
        units.append({"kind": "exhaustive", "today": t})
    for t in range(len(TODAYS) if tier == "thorough" else 2):
        units.append({"kind": "days", "today": t})
    return units


def run_days(acc: Acc, t: int) -> None:
    """'The stated offset from today': the SAME query text executed by the real query service on consecutive days
    within ONE process (a long-lived session refreshing a query page) must follow the calendar."""
    import shutil

    from zmon import db
    from zmon.gen import page as pg
    from zorg.service import swog

    base_day = TODAYS[t]
    root = harness.notes_root("c04days", t)
    days = [base_day + dt.timedelta(days=k) for k in range(-8, 9)]
    lines = ["# Calendar", ""]
    zid_of = {}
    for i, d in enumerate(days):
        z = d.strftime("%y%m%d") + "#C" + pg.ZID_ALPHABET[i]
        zid_of[d] = z
        lines.append(f"- {z} note of {d.isoformat()}")
    (root / "cal.zo").write_text("\n".join(lines) + "\n")
    with frozen(base_day):
        if db.cli(root, "db", "create").rc != 0:
            acc.inconclusive.append("days: db create failed")
            return
    queries = [("^-1d", -1, -1), ("^0d", 0, 0), ("^-2d:0d", -2, 0), ("$-3d:-1d", -3, -1), ("^-1d:1d", -1, 1), ("^1d", 1, 1)]
    for step in (0, 1, 2, 5, 3):  # (not monotonic: 'today' may also be set back, e.g. by a test clock)
        today = base_day + dt.timedelta(days=step)
        with frozen(today):
            for text, lo, hi in queries:
                q = f"S note W {text} G none"
                acc.evaluations += 1
                acc.judged += 1
                acc.count("days.executions")
                db.fresh_process_state()
                try:
                    out = swog.execute(root, db.db_url(root), q)
                except Exception as e:
                    acc.violation(f"{q!r} on {today} raised {type(e).__name__}: {e}", {"days": True, "today": t, "text": q}, cls="query execution raised")
                    continue
                finally:
                    db.fresh_process_state()
                got = sorted(w for l in out.split("\n") for w in l.split()[1:2] if "#" in w)
                want = sorted(zid_of[d] for d in days if today + dt.timedelta(days=lo) <= d <= today + dt.timedelta(days=hi))
                if got != want:
                    acc.violation(f"{q!r} executed on {today} (same process, earlier runs on other days) returns {got}, the notes created in [today{lo:+d}d, today{hi:+d}d] are {want}", {"days": True, "today": t, "text": q, "day": today.isoformat()}, cls="relative date not resolved against the day of execution")
                acc.sig(("days", text, step))
    shutil.rmtree(harness.scratch() / "c04days", ignore_errors=True)


def norm(q):
    """Comparable form of a Query-like (select, where, order_by, group_by)."""

    def nf(af):
        d = {}
        for f in dataclasses.fields(af):
            v = getattr(af, f.name)
            if f.name == "or_filters":
                d[f.name] = [[nf(a) for a in o.and_filters] for o in v]
            elif f.name == "property_filters":
                d[f.name] = sorted((p.key, p.value, p.op.name, None if p.op.name == "EXISTS" else p.value_type.name, p.negated) for p in v)
            elif f.name in ("create_date_ranges", "modify_date_ranges"):
                d[f.name] = sorted((r.start.isoformat(), r.end.isoformat() if r.end else "-") for r in v)
            else:
                d[f.name] = sorted(repr(x) for x in v)
        return d

    where = None if q.where is None else [nf(a) for a in q.where.and_filters]
    return {"select": repr(q.select), "where": where, "order_by": [o.name for o in q.order_by], "group_by": [g.name for g in q.group_by]}


def compile_query(text: str):
    import zorg.service.compiler._api as api

    listeners.QUERY.reset()
    exc = None
    q = None
    try:
        q = api.build_zorg_query(text)
    except Exception as e:
        exc = e
    return q, list(listeners.QUERY.parser_errors), list(listeners.QUERY.lexer_errors), exc


def judge(acc: Acc, case: qg.QCase, today: dt.date, rec: dict) -> None:
    acc.evaluations += 1
    q, pe, le, exc = compile_query(case.text)
    acc.count("listener.query_progs")
    if pe or le:
        acc.generator_invalid += 1
        acc.sample({"rejected": case.text, "errors": (pe + le)[:2]}, cap=5)
        return
    if exc is not None:
        acc.judged += 1
        acc.violation(f"build_zorg_query({case.text!r}) raised {type(exc).__name__}: {exc}", rec, cls=f"compilation of a well-formed query raised {type(exc).__name__}")
        return
    acc.judged += 1
    got, want = norm(q), norm(case)
    if got != want:
        parts = [k for k in want if got[k] != want[k]]
        detail = ""
        if "where" in parts and got["where"] is not None and want["where"] is not None and len(got["where"]) == len(want["where"]):
            for a, b in zip(got["where"], want["where"]):
                for k in b:
                    if a.get(k) != b[k]:
                        detail = f"{k}: compiled {a.get(k)} != denoted {b[k]}"
                        parts.append(k)
                        break
                if detail:
                    break
        acc.violation(f"{case.text!r} (today {today}): compiled structure differs in {parts}: {detail or (got, want)}", rec, cls="compiled query differs: " + ",".join(sorted(set(parts))))
    if case.where is not None or case.features - {"no-O-no-G"}:
        acc.sig((tuple(sorted(case.features)), today.isoformat()))
    if got == want:
        acc.sample({"text": case.text, "today": today.isoformat(), "compiled": {"select": got["select"], "order_by": got["order_by"], "group_by": got["group_by"], "n_and_groups": None if got["where"] is None else len(got["where"])}}, cap=3)
    judge_process_query(acc, case, rec)


def judge_process_query(acc: Acc, case: qg.QCase, rec: dict) -> None:
    from zorg.app.config import _process_query

    T = __import__("zorg.domain.types", fromlist=["x"])
    variants = [case.text]
    if case.text.startswith("W "):
        variants.append(case.text[2:])
    for text in variants:
        kw = {"command": "query", "query": text}
        _process_query(kw)
        out = kw["query"]
        exp = text if text.startswith(("S ", "W ")) else "W " + text
        added_g = added_o = False
        if not exp.startswith("S ") and " G " not in exp:
            exp += " G file"
            added_g = True
        if exp.startswith("S ") and not exp.startswith("S note") and " O " not in exp:
            exp += " O alpha"
            added_o = True
        if out != exp:
            acc.violation(f"_process_query({text!r}) = {out!r}, expected {exp!r}", rec, cls="CLI normalisation differs")
            continue
        kw2 = {"command": "query", "query": out}
        _process_query(kw2)
        if kw2["query"] != out:
            acc.violation(f"_process_query is not idempotent on {out!r}: {kw2['query']!r}", rec, cls="CLI normalisation not idempotent")
        q, pe, le, exc = compile_query(out)
        if pe or le or exc is not None:
            acc.violation(f"normalised query {out!r} does not compile: {pe or le or exc}", rec, cls="normalised query rejected")
            continue
        want = norm(case)
        if added_g:
            want["group_by"] = ["FILE"]
        if added_o:
            want["order_by"] = ["ALPHA"]
        if norm(q) != want:
            acc.violation(f"normalised query {out!r} compiles to a different structure", rec, cls="normalised query compiles differently")


def exhaustive_cases(today: dt.date):
    from zorg.domain import models as M
    from zorg.domain import types as T

    default_order = (T.OrderByType.NOTE_TYPE, T.OrderByType.PRIORITY, T.OrderByType.MODIFY_DATE, T.OrderByType.CREATE_DATE)

    def mk(text, where=None, select=T.SelectStaticType.NOTE, order=default_order, group=(), feats=()):
        return qg.QCase(text, select, where, order, group, set(feats))

    def one(**fields):
        return M.WhereOrFilter([M.WhereAndFilter(**fields)])

    # all 64 spellings alone, and pooled in all ordered pairs
    for t, s in qg.PRIORITY_SPELLINGS:
        yield mk("W " + t, one(priorities=set(s)), feats=("x-prio", t))
    for (t1, s1), (t2, s2) in itertools.product(qg.PRIORITY_SPELLINGS, repeat=2):
        yield mk(f"W {t1} {t2}", one(priorities=set(s1 | s2)), feats=("x-prio-pair", t1, t2))
    NT = T.NoteType
    m = {"-": NT.BASIC, "o": NT.OPEN_TODO, "x": NT.CLOSED_TODO, "~": NT.CANCELED_TODO, "<": NT.BLOCKED_TODO, ">": NT.PARENT_TODO}
    for n in (1, 2, 3):
        for chars in itertools.product("-ox~<>", repeat=n):
            s = "".join(chars)
            if any(a in "ox" and b in "ox" for a, b in zip(s, s[1:])):
                continue
            yield mk("W " + s, one(allowed_note_types={m[c] for c in s}), feats=("x-kind", s))
            if n == 2:
                yield mk(f"W {s[0]} {s[1]}", one(allowed_note_types={m[c] for c in s}), feats=("x-kind-sep", s))
    S = T.SelectStaticType
    fields = [("file", S.FILE), ("note", S.NOTE), ("prop", S.PROPERTY), ("links", S.LINKS), ("@", S.CONTEXT), ("#", S.AREA), ("+", S.PROJECT), ("%", S.PERSON), ("prop:due", T.SelectPropertyValues("due")), ("prop:file", T.SelectPropertyValues("file"))]
    O, G = T.OrderByType, T.GroupByType
    for t, s in fields:
        for agg in (False, True):
            st, ss = (f"count({t})", T.SelectAggregation("count", s)) if agg else (t, s)
            yield mk(f"S {st}", None, ss, feats=("x-select", st))
            yield mk(f"S {st} W o", one(allowed_note_types={NT.OPEN_TODO}), ss, feats=("x-select-w", st))
            yield mk(f"S {st} O alpha G file", None, ss, (O.ALPHA,), (G.FILE,), feats=("x-select-og", st))
            yield mk(f"S {st} G file O alpha", None, ss, (O.ALPHA,), (G.FILE,), feats=("x-select-go", st))
            yield mk(f"S {st} W x G none O none", one(allowed_note_types={NT.CLOSED_TODO}), ss, (O.NONE,), (), feats=("x-select-w-go", st))
    # relative dates at every offset the calendar makes interesting
    for unit in "dmy":
        for n in list(range(0, 14)) + [24, 30, 31, 36, 48, 59, 60, 365, 366]:
            for neg in ("", "-"):
                spec = f"{neg}{n}{unit}"
                d = qg.resolve_date(spec, today)
                yield mk(f"W ^{spec}", one(create_date_ranges={M.DateRange(d, None)}), feats=("x-rel", spec))
                yield mk(f"W ${spec}:{spec}", one(modify_date_ranges={M.DateRange(d, d)}), feats=("x-rel-m", spec))


def run_unit(unit: dict) -> dict:
    acc = Acc()
    today = TODAYS[unit["today"]]
    if unit["kind"] == "days":
        run_days(acc, unit["today"])
        acc.merge_counts(harness.COUNTERS.take())
        return acc.result()
    with frozen(today):
        if unit["kind"] == "random":
            for idx in range(unit["start"], unit["start"] + unit["n"]):
                rng = rng_for(ID, unit["seed"], idx)
                case = qg.QGen(rng, today).query()
                judge(acc, case, today, {"text": case.text, "today": unit["today"], "seed": unit["seed"], "idx": idx})
        else:
            n = 0
            for case in exhaustive_cases(today):
                judge(acc, case, today, {"text": case.text, "today": unit["today"], "exhaustive": True})
                n += 1
            acc.exhaustive_dims["priority_spellings_kinds_selects_relative_dates_cases"] = n
    acc.merge_counts(harness.COUNTERS.take())
    return acc.result()


def replay(case: dict) -> dict:
    acc = Acc()
    today = TODAYS[case["today"]]
    if case.get("days"):
        run_days(acc, case["today"])
        acc.merge_counts(harness.COUNTERS.take())
        return acc.result()
    with frozen(today):
        if "idx" in case:
            rng = rng_for(ID, case["seed"], case["idx"])
            c = qg.QGen(rng, today).query()
            if c.text != case["text"]:
                acc.inconclusive.append("generator changed since this replay was recorded")
            else:
                judge(acc, c, today, case)
        else:
            for c in exhaustive_cases(today):
                if c.text == case["text"]:
                    judge(acc, c, today, case)
                    break
    acc.merge_counts(harness.COUNTERS.take())
    return acc.result()

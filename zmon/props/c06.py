"""C06 — incremental reindexing is equivalent to rebuilding the index.

Recorder over a whole edit history (text-level edits, page add/delete/rename,
note moves, day advances, `db reindex` runs with and without explicit paths,
through the real CLI entry point); oracle: note-centric multiset equality of the
raw-sqlite dump of the incrementally maintained index with the dump of a
`db create` on a copy of the final files, plus sampled queries run on both.
"""

from __future__ import annotations

import datetime as dt
import shutil

from zmon import db, harness, histrun
from zmon.gen import page as pg
from zmon.mon.clock import frozen
from zmon.mon.effects import TRACER
from zmon.props.c05 import describe_diff, multiset_diff, _fields
from zmon.res import Acc, rng_for

ID = "C06"
LEVEL = "exploration"
RULE = (
    "seeded edit histories (4-14 steps over {edit body, edit bullet, change kind/priority, add note with/without ZID, delete "
    "note, cut-and-paste note to another page, add/delete/rename page, retitle section, edit header, break page (syntax error) / repair page, advance "
    "day, db reindex, db reindex <paths>}; a reindex that meets a broken page is refused and the history goes on) on generated directories, ending with a plain reindex; then rebuild-and-compare + 12 sampled "
    "queries on both indexes. distinct = distinct multisets of step kinds; non-trivial = history contains >= 1 edit and >= 2 "
    "reindex runs (incl. the final one)."
)
ASSUMPTIONS = [
    "equivalence is judged note-centrically (per-note records incl. page path, line, section path, block mates); orphan tag rows, row ids and note-less page rows are invisible to every query and reported as diagnostics only",
    "commands run in-process through main() with the cached engine reset between commands",
]
REQUIRED_COUNTERS = ["enter.reindex_database", "enter.remove_file_by_name", "enter._check_for_modified_notes", "enter._delete_sections_and_blocks"]
MIN_JUDGED = {"quick": 40, "thorough": 500}
FINDING_DELETED = "C06-deleted-page-rows-survive"
QUERIES = ["S note G none O none", "S note W o G file", "S count(note) G type", "S # O alpha", "S + O alpha", "S file", "S links O alpha", "S prop O alpha", "S note W (o | x | ~) G priority O alpha", "S note W - G section O alpha", "S @ O alpha G file", "S count(note) G file"]


def setup_worker() -> None:
    import zorg.service.handlers as h
    import zorg.storage.sql._repo as r

    harness.COUNTERS.watch_attr(h, "reindex_database")
    harness.COUNTERS.watch_attr(h, "_check_for_modified_notes")
    harness.COUNTERS.watch_attr(r.SQLRepo, "remove_file_by_name")
    harness.COUNTERS.watch_attr(r, "_delete_sections_and_blocks")
    TRACER.install()


def plan(tier: str, seed: int) -> list[dict]:
    n = 64 if tier == "quick" else 800
    per = 4 if tier == "quick" else 10
    return [{"kind": "hist", "start": s, "n": per, "seed": seed} for s in range(0, n, per)]


def run_case(acc: Acc, seed: int, idx: int) -> None:
    from zorg.service import swog

    rng = rng_for(ID, seed, idx)
    root = harness.notes_root("c06", idx)  # (some directories are reached through a symlink / a '..' component)
    opts = pg.GenOpts(max_items=3, max_blocks=2, allow_mod_without_zid=False, p_zid=rng.choice([0.3, 0.6, 1.0]))
    # half of the histories avoid the trigger of the known finding (page deletion / renaming)
    avoid = False  # the finding was repaired (see KNOWN_FINDINGS.json, status fixed); page deletion is always exercised
    allow = set(histrun.ALL_STEPS)
    if avoid:
        allow -= {"delete_page", "rename_page"}
    run = histrun.Runner(rng, root, opts, allow=allow)
    acc.evaluations += 1
    case = {"seed": seed, "idx": idx}
    if not run.setup():
        if run.failed:
            acc.inconclusive.append(run.failed)
        else:
            acc.generator_invalid += 1
        return
    kinds = histrun.gen_history(rng, rng.randint(4, 14), allow)
    if idx % 4 == 3:
        # targeted: a reindex that is refused half-way (new / edited pages together with a page that
        # currently has a syntax error), then the repair
        kinds = kinds[: rng.randint(0, 4)] + rng.sample(["add_page", "break_page", "edit_body", "add_note", "add_page"], 4) + ["reindex"] + rng.sample(["repair_page", "edit_body", "advance_day"], 2) + ["reindex"] + kinds[-2:]
    if idx % 4 == 1:
        # targeted: a page vanishes (deleted / renamed), ANOTHER page gets an edit that needs a write-back,
        # only that page is reindexed explicitly, then the plain reindex
        kinds = kinds[: rng.randint(0, 3)] + [rng.choice(["delete_page", "rename_page"]), rng.choice(["add_note", "advance_day"]), rng.choice(["add_note", "edit_body"]), "reindex_last_edited"] + kinds[-1:]
    if idx % 8 == 2:
        # targeted: a page vanishes, the index is brought up to date, the page comes back UNCHANGED
        kinds = kinds[: rng.randint(0, 3)] + ["delete_page", "reindex", rng.choice(["edit_body", "advance_day"]), "restore_page", rng.choice(["reindex", "reindex_paths"])] + kinds[-1:]
    run.run(kinds)
    acc.count("refused_reindex_runs", run.refusals)
    case["history"] = run.log
    case["initial_files"] = run.initial_files
    acc.judged += 1
    if run.failed:
        acc.violation(f"history aborted: {run.failed}; history={run.log[-6:]}", case, cls="reindex fails during a history of valid edits")
        return
    final = run.reindex_obs[-1]
    for p in final.dump_problems:
        acc.violation(f"index invariant after the history: {p}", case, cls="index structural invariant broken")
    rebuilt = run.rebuild_dump()
    if rebuilt.problems:
        acc.violation(f"rebuild: {rebuilt.problems[:2]}", case, cls="rebuild of the final files has problems")
        return
    oa, ob = multiset_diff(final.rows_after, rebuilt.notes, db.NOTE_KEYS)
    if oa or ob:
        existing = set(final.files_after)
        ghost = [dict(x) for x in oa]
        # classifier of the known finding: EVERY differing record belongs to a page that no longer exists on disk
        only_ghosts = not ob and all(__import__("json").loads(g["page"]) not in existing for g in ghost)
        finding = FINDING_DELETED if only_ghosts and any(s["kind"] in ("delete_page", "rename_page") for s in run.log) else None
        acc.violation("incremental index != rebuilt index: " + describe_diff(oa, ob, "incremental", "rebuilt"), case, cls="incremental index != rebuilt index (" + ("notes of pages that no longer exist" if only_ghosts else _fields(oa, ob)) + ")", finding=finding)
    else:
        # sampled queries must answer identically
        with frozen(run.day):
            for q in QUERIES:
                outs = []
                for r_ in (root, run.rebuild_root):
                    db.fresh_process_state()
                    try:
                        outs.append(swog.execute(r_, db.db_url(r_), q))
                    except Exception as e:
                        outs.append(f"EXC {type(e).__name__}: {e}")
                    finally:
                        db.fresh_process_state()
                acc.count("queries_compared")
                if outs[0] != outs[1]:
                    acc.violation(f"query {q!r} answers differently on incremental and rebuilt index", case, cls="query answers differ between incremental and rebuilt index")
                    break
    ks = sorted(s["kind"] for s in run.log)
    n_re = sum(1 for s in run.log if s["kind"] == "reindex")
    if n_re >= 2 and len(ks) > n_re + 1:
        acc.sig(tuple(ks))
    acc.sample({"history": run.log, "final_notes": len(final.rows_after)}, cap=2)
    shutil.rmtree(root.parent, ignore_errors=True)


def run_unit(unit: dict) -> dict:
    acc = Acc()
    for idx in range(unit["start"], unit["start"] + unit["n"]):
        run_case(acc, unit["seed"], idx)
    acc.merge_counts(harness.COUNTERS.take())
    return acc.result()


def replay(case: dict) -> dict:
    acc = Acc()
    run_case(acc, case["seed"], case["idx"])
    acc.merge_counts(harness.COUNTERS.take())
    return acc.result()

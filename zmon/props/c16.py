"""C16 — template initialisation never overwrites existing files.

Effect tracer as frame condition + byte snapshots + icontract contract on the
real ``init_from_template`` (OLD bytes of the target); entry through the API,
`zorg template init` and `zorg edit` (editor = /bin/true).  Templates expose
their identity and variables, so the expected text is computed without Jinja.
"""

from __future__ import annotations

import datetime as dt
import re
import shutil
from pathlib import Path

from zmon import db, harness
from zmon.mon import contracts
from zmon.mon.effects import TRACER
from zmon.res import Acc, rng_for

ID = "C16"
LEVEL = "exploration"
RULE = (
    "seeded pattern maps (1-5 overlapping regexes in a fixed order: dated habit/done/day patterns, sub-directory name "
    "patterns, catch-alls, un-anchored patterns) x targets (existing / missing, in sub-directories, with/without .zo) x "
    "overwrite flag x explicit variables, through init_from_template, `zorg template init` and `zorg edit`; each call is "
    "repeated. distinct = distinct (entry route, target existed?, overwrite?, index of first matching pattern, #patterns, "
    "second-call) signatures; non-trivial = target existed or >= 2 patterns match."
)
ASSUMPTIONS = [
    "templates only use {{ var }} and {{ date.strftime(fmt) }} so that the expected rendering needs no Jinja (Jinja drops one trailing newline, hence the templates end with a section header, which may end at EOF)",
    "not judged: date-like captures that are not calendar dates, explicit template argument together with a matching pattern",
]
REQUIRED_COUNTERS = ["contract_evals.init_from_template", "enter.render", "route.api", "route.cli_template_init", "route.cli_edit"]
MIN_JUDGED = {"quick": 4000, "thorough": 50000}
_S = {"viol": []}
ZID_GAIN = re.compile(r"^([-ox~<>] (?:P\d )?)\d{6}#[0-9A-Za-z]{2,3} (?=note from template|todo from )", re.M)

PATTERNS = [
    ("habit", r"^(?P<date>[0-9]{4}[01][0-9][0-3][0-9])_habit\.zo$", "date"),
    ("done", r"^(?P<date>[0-9]{4}[01][0-9][0-3][0-9])_done\.zo$", "date"),
    ("day", r"^(?P<date>[0-9]{4}[01][0-9][0-3][0-9])[a-z_]*\.zo$", "date"),
    ("ydir", r"^[0-9]{4}/(?P<date>[0-9]{8})\.zo$", "date"),
    # captures that merely START like a date (eight date-like digits followed by more characters): plain strings
    ("stamp", r"^(?P<name>[0-9]{8}_[a-z]+)\.zo$", "name"),
    ("nine", r"^(?P<name>[0-9]{9})\.zo$", "name"),
    ("subname", r"^sub/(?P<name>[a-z_]+)\.zo$", "name"),
    ("name", r"^(?P<name>[a-z_]+)\.zo$", "name"),
    ("all", r"^.*\.zo$", ""),
    ("unanchored", r"notes", ""),
    ("prj", r"^prj_(?P<name>[a-z]+)", "name"),
    ("zoq", r"^queries/(?P<name>[a-z]+)\.zoq$", "name"),
    ("md", r"^refs/[a-z]+\.md$", ""),
    ("any", r"^.+$", ""),
]
TARGETS = ["20240131_habit.zo", "20240131_done", "202401315.zo", "202401315", "20240131_todo.zo", "20240229.zo", "20241231_day_x.zo", "2024/20240101.zo", "sub/notes.zo", "sub/in_box", "notes", "prj_zorg.zo", "prj_zorg", "sub/deep/x.zo", "other.zo", "my notes".replace(" ", "_") + ".zo", "sub/my_notes.zo", "UPPER.zo",
           "queries/open.zoq", "queries/closed.zoq", "refs/books.md", "v1.2", "sub/list.txt", "refs/books.md", "queries/open.zoq"]


def template_text(tid: str, var: str) -> str:
    body = f"## T={tid}"
    if var == "date":
        body += " d={{ date.strftime('%Y%m%d') }} iso={{ date.strftime('%Y-%m-%d') }}"
    elif var == "name":
        body += " name={{ name }}"
    body += " who={{ who }}"
    return f"# Template {tid}.\n#\n# ^ = [[template]]\n\n{body}\n##\n## second header line\n\n- note from template {tid}\no P2 todo from {tid} #tmpl\n\n################################ tail of {tid}\n"


def expected_render(tid: str, var: str, caps: dict, who: str) -> str:
    body = f"# T={tid}"
    if var == "date":
        d = dt.datetime.strptime(caps["date"], "%Y%m%d")
        body += f" d={d.strftime('%Y%m%d')} iso={d.strftime('%Y-%m-%d')}"
    elif var == "name":
        body += f" name={caps['name']}"
    body += f" who={who}"
    return f"{body}\n#\n# second header line\n\n- note from template {tid}\no P2 todo from {tid} #tmpl\n\n################################ tail of {tid}"


def setup_worker() -> None:
    import zorg.service.templates as t

    harness.COUNTERS.watch_attr(t.ZorgTemplateManager, "render")
    TRACER.install()
    if contracts.AVAILABLE:
        ic = contracts.icontract
        from zorg.shared import common as c

        def old_bytes(zdir, new_path):
            p = c.prepend_zdir(Path(zdir), Path(new_path))
            return p.read_bytes() if p.exists() else None

        def existing_target_untouched(zdir, new_path, should_overwrite_existing, OLD):
            contracts.bump("contract_evals.init_from_template")
            if OLD.old is not None and not should_overwrite_existing:
                p = c.prepend_zdir(Path(zdir), Path(new_path))
                if not p.exists() or p.read_bytes() != OLD.old:
                    _S["viol"].append(f"{new_path}: existing target changed without should_overwrite_existing")
            return True

        wrapped = ic.snapshot(old_bytes, name="old")(ic.ensure(existing_target_untouched, error=contracts.ContractBroken)(t.init_from_template))
        t.init_from_template = wrapped
        # the runners did `from zorg.service.templates import init_from_template`: rebind those names too
        import zorg.app.runners._run_edit as re_
        import zorg.app.runners._run_template as rt
        import zorg.app.runners._run_action as ra
        import zorg.service.note_utils as nu

        for m in (re_, rt, ra, nu):
            m.init_from_template = wrapped


def plan(tier: str, seed: int) -> list[dict]:
    n = 3200 if tier == "quick" else 40000
    per = 100 if tier == "quick" else 500
    return [{"kind": "tmpl", "start": s, "n": per, "seed": seed} for s in range(0, n, per)]


def norm_target(t: str) -> str:
    return t if "." in t else t + ".zo"


def run_case(acc: Acc, seed: int, idx: int) -> None:
    import re as _re
    from zorg.service import templates

    rng = rng_for(ID, seed, idx)
    root = harness.fresh_dir("c16") / "org"
    root.mkdir()
    acc.evaluations += 1
    pats = rng.sample(PATTERNS, rng.randint(0, 5))
    for tid, _rx, var in pats:
        f = root / "tmpl" / f"{tid}.zot"
        f.parent.mkdir(exist_ok=True)
        f.write_text(template_text(tid, var))
    target = rng.choice(TARGETS)
    rel = norm_target(target)
    existed = rng.random() < 0.45
    old = None
    if existed:
        f = root / rel
        f.parent.mkdir(parents=True, exist_ok=True)
        old = rng.choice(["# precious\n\n- user text that must survive\n", "", "# T=all who=\n", "not even a valid page"])
        f.write_text(old)
    if rng.random() < 0.4:
        sib = root / (str(Path(rel).with_suffix("")) + (".zo" if not rel.endswith(".zo") else ".zoq"))
        if not sib.exists() and sib != root / rel:
            sib.parent.mkdir(parents=True, exist_ok=True)
            sib.write_text("# sibling with another suffix\n")
    overwrite = rng.random() < 0.25
    who = rng.choice(["", "bob", "a_b"])
    route = rng.choice(["api", "api", "cli_template_init", "cli_edit"])
    if route == "cli_edit" and (overwrite or who or rel.endswith(".zoq")):
        route = "api"  # (`edit` of a .zoq page refreshes the query results: another feature)
    if route == "cli_edit" and existed:
        # `edit` reindexes the directory after the editor closes: the page must be indexable
        old = "# precious\n\n- 240101#Ab user text that must survive\n"
        (root / rel).write_text(old)
    # expected
    first = None
    for i, (tid, rx, var) in enumerate(pats):
        m = _re.compile(rx).match(rel)
        if m:
            first = (i, tid, var, m.groupdict())
            break
    n_match = sum(1 for tid, rx, var in pats if _re.compile(rx).match(rel))
    if first and first[2] == "date":
        try:
            dt.datetime.strptime(first[3]["date"], "%Y%m%d")
        except ValueError:
            acc.not_judged += 1
            return
    if existed and not overwrite:
        exp = old
    elif first:
        exp = expected_render(first[1], first[2], first[3], who)
    else:
        exp = old  # None when missing: stays missing
    case = {"seed": seed, "idx": idx, "route": route, "target": target, "existed": existed, "overwrite": overwrite, "patterns": [p[0] for p in pats]}
    pmap = {_re.compile(rx): Path(f"tmpl/{tid}.zot") for tid, rx, _v in pats}
    cfg = db.write_config(root.parent / "cfg.yml", template_pattern_map={rx: f"tmpl/{tid}.zot" for tid, rx, _v in pats}, vim_exe="true", keep_alive_file=str(root.parent / "keep_alive"))
    # the edit route may name several targets: an EXISTING page before and / or after the judged one
    extra_before, extra_after = [], []
    if route == "cli_edit" and rel not in ("already_there.zo", "sub/also_there.zo"):
        for name, lst in (("already_there.zo", extra_before), ("sub/also_there.zo", extra_after)):
            if rng.random() < 0.5:
                (root / name).parent.mkdir(parents=True, exist_ok=True)
                (root / name).write_text(f"# An existing page\n\n- 200101#E{len(name) % 10} note of {name}\n")
                lst.append(name)
    before = {str(f.relative_to(root)): f.read_bytes() for f in sorted(root.rglob("*")) if f.is_file()}
    for call in (1, 2):
        _S["viol"].clear()
        TRACER.start(root)
        err = None
        try:
            if route == "api":
                acc.count("route.api")
                arg = rng.choice([Path(target), root / rel, target])
                templates.init_from_template(root, pmap, arg, var_map=({"who": who} if who else None), should_overwrite_existing=overwrite)
            elif route == "cli_template_init":
                acc.count("route.cli_template_init")
                args = ["template", "init"] + (["-f"] if overwrite else []) + [target] + ([f"who={who}"] if who else [])
                r = db.cli(root, *args, config=cfg)
                if r.rc != 0:
                    err = f"rc={r.rc} {r.err[-300:]} {r.exc!r}"
            else:
                acc.count("route.cli_edit")
                r = db.cli(root, "edit", *extra_before, target, *extra_after, config=cfg)
                if extra_before or extra_after:
                    acc.count("route.cli_edit_several_targets")
                if r.rc != 0:
                    err = f"rc={r.rc} {r.err[-300:]}"
        except Exception as e:
            err = f"{type(e).__name__}: {e}"
        ev = TRACER.stop()
        acc.judged += 1
        if err:
            acc.violation(f"[{route}] initialising {target!r} (call {call}) failed: {err}", case, cls=f"template initialisation fails ({route})")
            break
        f = root / rel
        got = f.read_text() if f.exists() else None
        if route == "cli_edit" and got is not None:
            # the reindex that follows the editor gives the template's notes their ZIDs (C05's rule)
            got = ZID_GAIN.sub(r"\1", got)
        if got != exp:
            if existed and not overwrite:
                cls = "existing file changed without overwrite"
            elif exp is None:
                cls = "file written although no pattern matches"
            elif got is None:
                cls = "missing file with a matching pattern not created"
            else:
                cls = "content is not the rendering of the first matching pattern's template"
            acc.violation(f"[{route}] target {target!r} (existed={existed}, overwrite={overwrite}, patterns={[p[0] for p in pats]}), call {call}: content {got!r} != expected {exp!r}", case, cls=cls)
            break
        writes = {e[1] for e in ev if e[0] == "write" and not e[1].startswith(".zorg")}
        if route == "cli_edit" and first and (not existed):
            writes.discard(rel)  # ZID write-back of the reindex after the editor
        allowed = {rel} if ((not existed or overwrite) and first and call == 1) or (overwrite and first) else set()
        if writes - allowed:
            acc.violation(f"[{route}] call {call}: wrote {sorted(writes - allowed)} (allowed: {sorted(allowed)})", case, cls="write outside the frame condition" + (" (second call)" if call == 2 else ""))
            break
        after = {str(p.relative_to(root)): p.read_bytes() for p in sorted(root.rglob("*")) if p.is_file() and ".zorg" not in p.parts}
        for k, v in before.items():
            if k != rel and after.get(k) != v:
                acc.violation(f"[{route}] another file changed: {k}", case, cls="another file changed")
        for v in _S["viol"]:
            acc.violation(f"contract: {v}", case, cls="contract: existing target changed")
        if call == 1:
            exp_second = exp
            existed_after = f.exists()
            # doing it twice equals doing it once
            if not overwrite:
                exp = got
        acc.sig((route, existed, overwrite, first[0] if first else -1, len(pats), call))
    if existed or n_match >= 2:
        pass
    acc.sample({"route": route, "target": target, "existed": existed, "overwrite": overwrite, "patterns": [p[0] for p in pats], "first_match": first[1] if first else None, "result": (root / rel).read_text()[:80] if (root / rel).exists() else None}, cap=3)
    shutil.rmtree(root.parent, ignore_errors=True)


def run_pair_case(acc: Acc, seed: int, idx: int) -> None:
    """Two patterns whose templates share their BASE NAME (tw/day.zot, th/day.zot) but not their text;
    both targets are initialised one after the other in the same process (API, or one `zorg edit a b`)."""
    import re as _re
    from zorg.service import templates

    rng = rng_for(ID, seed, f"pair{idx}")
    root = harness.fresh_dir("c16p") / "org"
    root.mkdir()
    acc.evaluations += 1
    specs = [("work", "tw/day.zot", "WORKLOG"), ("home", "th/day.zot", "HOMELOG"), ("misc", "tm/other.zot", "MISC")]
    rng.shuffle(specs)
    for d, tpath, tid in specs:
        f = root / tpath
        f.parent.mkdir(parents=True, exist_ok=True)
        f.write_text(template_text(tid, "date"))
    pats = [(rf"^{d}/(?P<date>[0-9]{{8}})\.zo$", tpath, tid) for d, tpath, tid in specs]
    day = rng.choice(["20240105", "20240229", "20231231"])
    targets = [(f"{d}/{day}.zo", tid) for d, _t, tid in specs]
    rng.shuffle(targets)
    route = rng.choice(["api", "cli_edit"])
    case = {"seed": seed, "idx": idx, "pair": True, "route": route, "targets": [t for t, _ in targets]}
    acc.judged += 1
    err = None
    try:
        if route == "api":
            acc.count("route.api")
            pmap = {_re.compile(rx): Path(tp) for rx, tp, _ in pats}
            for t, _tid in targets:
                templates.init_from_template(root, pmap, t)
        else:
            acc.count("route.cli_edit")
            cfg = db.write_config(root.parent / "cfg.yml", template_pattern_map={rx: tp for rx, tp, _ in pats}, vim_exe="true", keep_alive_file=str(root.parent / "keep_alive"))
            r = db.cli(root, "edit", *[t for t, _ in targets], config=cfg)
            if r.rc != 0:
                err = f"rc={r.rc} {r.err[-200:]}"
    except Exception as e:
        err = f"{type(e).__name__}: {e}"
    if err:
        acc.violation(f"[pair/{route}] initialising {case['targets']} failed: {err}", case, cls=f"template initialisation fails (pair, {route})")
        return
    for t, tid in targets:
        f = root / t
        got = f.read_text() if f.exists() else None
        if got is not None and route == "cli_edit":
            got = ZID_GAIN.sub(r"\1", got)
        exp = expected_render(tid, "date", {"date": day}, "")
        if got != exp:
            acc.violation(f"[pair/{route}] {t}: content {got!r} is not the rendering of ITS pattern's template ({tid}): expected {exp!r}", case, cls="content is not the rendering of the matching pattern's template (templates sharing a base name)")
    # the template of one pattern is EDITED and another page is initialised from it in the same process:
    # the new page must show the new text (no stale copy from the previous rendering)
    d, tpath, tid = specs[0]
    (root / tpath).write_text(template_text(tid + "v2", "date"))
    t2 = f"{d}/20240606.zo"
    try:
        templates.init_from_template(root, {_re.compile(rx): Path(tp) for rx, tp, _ in pats}, t2)
        got = (root / t2).read_text() if (root / t2).exists() else None
        exp = expected_render(tid + "v2", "date", {"date": "20240606"}, "")
        if got != exp:
            acc.violation(f"[pair/{route}] {t2}: after the template was edited the page is {got!r}, expected the rendering of the edited template {exp!r}", case, cls="page rendered from a stale copy of an edited template")
    except Exception as e:
        acc.violation(f"[pair/{route}] initialising {t2} after editing the template failed: {type(e).__name__}: {e}", case, cls="template initialisation fails (pair, edited template)")
    acc.sig(("pair", route, tuple(t for t, _ in targets)))
    shutil.rmtree(root.parent, ignore_errors=True)


def run_unit(unit: dict) -> dict:
    acc = Acc()
    for idx in range(unit["start"], unit["start"] + unit["n"]):
        run_case(acc, unit["seed"], idx)
        if idx % 10 == 0:
            run_pair_case(acc, unit["seed"], idx)
    acc.merge_counts(harness.COUNTERS.take())
    acc.merge_counts(contracts.take_counts())
    return acc.result()


def replay(case: dict) -> dict:
    acc = Acc()
    if case.get("pair"):
        run_pair_case(acc, case["seed"], case["idx"])
    else:
        run_case(acc, case["seed"], case["idx"])
    acc.merge_counts(harness.COUNTERS.take())
    acc.merge_counts(contracts.take_counts())
    return acc.result()

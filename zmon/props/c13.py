"""C13 — re-running an interrupted index operation converges (fault enumeration).

The audit-hook/commit-event tracer gives the ordered external-effect list
E1..EN of an uninterrupted run (file writes, unlinks, SQLAlchemy commits).  For
every k a fresh copy of the scenario is run IN A SUBPROCESS whose tracer calls
os._exit(86) immediately before Ek (kill semantics); the same command is then
run to completion in a new process, the oracle is applied, and it is run once
more for the fixpoint.  Thorough adds a torn (truncated) variant of every file
write.
"""

from __future__ import annotations

import datetime as dt
import json
import os
import re
import shutil
from pathlib import Path

from zmon import db, harness
from zmon.gen import history as hg
from zmon.gen import page as pg
from zmon.gen import zdir as zd
from zmon.mon.clock import frozen
from zmon.props.c05 import multiset_diff, describe_diff, _fields
from zmon.res import Acc, rng_for

ID = "C13"
LEVEL = "fault_enumeration"
DAY0 = dt.date(2031, 3, 14)
RULE = (
    "for each scenario (create with new notes on several pages; reindex with an edited and a new note; reindex with two "
    "changed pages sharing a tag; create over an existing index; reindex with brand-new, edited and deleted pages; thorough: "
    "further seeded scenarios) EVERY boundary between "
    "consecutive external effects of the uninterrupted run is a crash point: crash (os._exit before the effect, in a "
    "subprocess), rerun the same command in a new process, judge, rerun for the fixpoint; thorough also truncates every "
    "file write to 1/3 and 2/3. distinct = distinct (scenario, effect kind and target at the crash point, torn fraction); "
    "non-trivial = the crash left at least one effect undone."
)
ASSUMPTIONS = [
    "no external state changes between two consecutive effects, so effect boundaries cover every line-level crash point of a kill",
    "SQLite's own commit atomicity is trusted (no crash inside a commit); power-loss reordering across files is out of reach",
    "'exactly as after an uninterrupted run' is read as: same notes per page on every field, up to the names of ZIDs allocated during the run",
]
REQUIRED_COUNTERS = ["crash.injected", "crash.exit86", "rerun.ok", "effects.total"]
MIN_JUDGED = {"quick": 30, "thorough": 400}
WATCHDOG = {"quick": 1500, "thorough": 14000}
FINDING_TORN = "C13-in-place-writes-are-not-atomic"
FINDING_STAMP = "C13-stamp-lost-when-killed-during-page-removal"
FINDING_2ND = "C13-second-write-back-of-a-page-not-redone"
ZID_RE = re.compile(r"\b\d{6}#[0-9A-Za-z]{2,3}\b")


def plan(tier: str, seed: int) -> list[dict]:
    scen = ["create_new", "reindex_edit_new", "reindex_shared_tag", "recreate", "reindex_new_page", "reindex_multi_zid_writeback", "reindex_multi_stamp_writeback"]
    if tier == "thorough":
        scen += [f"rand{i}" for i in range(16)]
    shards = 4 if tier == "quick" else 6
    return [{"kind": "scen", "scenario": s, "shard": k, "of": shards, "seed": seed, "tier": tier} for s in scen for k in range(shards)]


# ------------------------------------------------------------------ scenarios
def _write(root: Path, rel: str, text: str) -> None:
    f = root / rel
    f.parent.mkdir(parents=True, exist_ok=True)
    f.write_text(text)


def build_scenario(name: str, seed: int, root: Path):
    """Prepares the state S0 in *root*; returns (cmd args, day)."""
    rng = rng_for(ID, seed, name)
    day = DAY0
    if name == "create_new":
        _write(root, "a.zo", "# A #pa\n\n- first new note +shared\no P1 2024-05-05 dated todo\n  * k:: v w\n\n################################ S1 @c1\n- 240101#Ab old note\nx another new one\n")
        _write(root, "sub/b.zo", "# B [[a]]\n\n- b new +shared\n- 240102#Cd has zid [[a#s]]\n\n~ P2 cancelled new\n")
        _write(root, "c.zo", "# C\n\n< blocked new #t1\n> parent new\n  * bullet\n    - deeper\n")
        return ["db", "create"], day
    if name in ("reindex_edit_new", "reindex_shared_tag", "recreate", "reindex_new_page", "reindex_multi_zid_writeback", "reindex_multi_stamp_writeback"):
        _write(root, "a.zo", "# A #pa\n\n- 240101#Aa note one +only_here\no P1 240101#Ab todo two\n  * k:: v w\n\n################################ S1 @c1\n- 240101#Ac old note\n- 310301 240101#Ad stamped before\n")
        _write(root, "sub/b.zo", "# B [[a]]\n\n- 240102#Ba b one +shared\n- 240102#Bb has link [[a#s]]\n\n~ P2 240102#Bc cancelled\n")
        _write(root, "c.zo", "# C\n\n< 240103#Ca blocked #t1 +shared\n")
        with frozen(day):
            r = db.cli(root, "db", "create")
        assert r.rc == 0, r
        day = day + dt.timedelta(days=3)
        if name == "reindex_edit_new":
            t = (root / "a.zo").read_text().replace("note one", "note one edited").replace("stamped before", "stamped before, edited again")
            (root / "a.zo").write_text(t)
            t = (root / "sub/b.zo").read_text().replace("- 240102#Bb", "- brand new note without zid\n- 240102#Bb")
            (root / "sub/b.zo").write_text(t)
            return ["db", "reindex"], day
        if name == "reindex_multi_zid_writeback":
            # THREE indexed pages that each need (only) a ZID write-back: the write-back of one page must not
            # make another, not yet rewritten page look up to date
            for rel, line in (("a.zo", "- appended to a without zid\n- 2024-01-15 appended to a with an own create date\no P1 2023-12-31 and a third create date\n"), ("sub/b.zo", "o P2 appended to b without zid\n"), ("c.zo", "- appended to c without zid +shared\n- 2024-02-29 dated one in c\n")):
                (root / rel).write_text((root / rel).read_text() + line)
            return ["db", "reindex"], day
        if name == "reindex_multi_stamp_writeback":
            # three indexed pages that each need (only) a modify-date write-back
            for rel, a, b in (("a.zo", "note one", "note one edited"), ("sub/b.zo", "b one", "b one edited"), ("c.zo", "blocked", "blocked edited")):
                (root / rel).write_text((root / rel).read_text().replace(a, b))
            return ["db", "reindex"], day
        if name == "reindex_new_page":
            # a brand-new page (not yet in file_hash.json) next to an edited one and a deleted one
            _write(root, "b_new.zo", "# Brand new page +shared\n\n- new one\no P2 new two #t1\n- 240104#Na already has a zid\n")
            _write(root, "sub/z_new.zo", "# Another new page\n\n- 240105#Nb only zids here\n")
            t = (root / "a.zo").read_text().replace("todo two", "todo two edited")
            (root / "a.zo").write_text(t)
            (root / "c.zo").unlink()
            return ["db", "reindex"], day
        if name == "reindex_shared_tag":
            # the tag used by exactly one note is removed and reintroduced in the same run
            t = (root / "a.zo").read_text().replace("note one +only_here", "note one").replace("old note", "old note +only_here")
            (root / "a.zo").write_text(t)
            t = (root / "c.zo").read_text().replace("blocked #t1 +shared", "blocked #t1") + "o new in c +shared\n"
            (root / "c.zo").write_text(t)
            return ["db", "reindex"], day
        t = (root / "a.zo").read_text().replace("todo two", "todo two changed") + "- appended without zid\n"
        (root / "a.zo").write_text(t)
        (root / "c.zo").unlink()
        return ["db", "create"], day
    # random scenarios (thorough)
    opts = pg.GenOpts(max_items=3, max_blocks=2, allow_mod_without_zid=False, p_zid=rng.choice([0.3, 0.7]))
    z = zd.gen_zdir(rng, opts, n_pages=rng.choice([2, 3]))
    z.write(root)
    if rng.random() < 0.4:
        return ["db", "create"], day
    with frozen(day):
        r = db.cli(root, "db", "create")
    assert r.rc == 0, r
    day = day + dt.timedelta(days=rng.choice([0, 1, 5]))
    ctx = hg.Ctx(rng)
    for _ in range(rng.randint(1, 4)):
        p = rng.choice(hg.zo_files(root))
        op = rng.choice(["edit_body", "add_note", "change_kind", "edit_bullet", "delete_note", "add_note_zid", "add_page", "delete_page"])
        if op == "add_page":
            o2 = pg.GenOpts(max_items=2, max_blocks=1, allow_mod_without_zid=False, p_zid=0.5, zid_registry=opts.zid_registry)
            _write(root, rng.choice(["", "sub/"]) + f"added{rng.randint(0, 99)}.zo", pg.render(pg.PageGen(rng, o2).page())[0])
            continue
        if op == "delete_page":
            if len(hg.zo_files(root)) > 1:
                p.unlink()
            continue
        new = hg.PAGE_OPS[op](p.read_text(), ctx, day)
        if new is not None:
            p.write_text(new)
    return ["db", rng.choice(["reindex", "reindex", "create"])], day


def snapshot(root: Path) -> dict:
    out = {}
    for f in sorted(root.rglob("*")):
        if f.is_file():
            out[str(f.relative_to(root))] = f.read_bytes()
    return out


def restore(root: Path, snap: dict) -> None:
    if root.exists():
        shutil.rmtree(root)
    root.mkdir(parents=True)
    for rel, data in snap.items():
        f = root / rel
        f.parent.mkdir(parents=True, exist_ok=True)
        f.write_bytes(data)


def masked_state(root: Path, lacking: dict):
    """Canonical per-note records of files and index with run-allocated ZIDs masked."""
    recs_files, problems = [], []
    for p in hg.zo_files(root):
        rel = str(p.relative_to(root))
        c = harness.compile_path(root, Path(rel))
        if c.exc is not None or c.parser_errors:
            problems.append(f"{rel} not compilable: {c.exc or c.parser_errors[:1]}")
            continue
        recs_files.extend(db.page_recs(c.page, root))
    dump = db.dump_index(root)
    return recs_files, dump, problems


def mask(recs: list[dict], lacking: dict) -> list[dict]:
    out = []
    for r in recs:
        r = dict(r)
        if r["line"] in lacking.get(r["page"], ()):  # this note had no ZID in S0: its ZID is allocated by the run
            z = r["zid"]
            if z:
                r["body"] = r["body"].replace(z, "<Z>")
                r["zid"] = "<Z>"
        out.append(r)
    return out


def run_unit(unit: dict) -> dict:
    acc = Acc()
    name, seed = unit["scenario"], unit["seed"]
    base = harness.fresh_dir("c13-" + name)
    s0 = base / "s0" / "org"
    s0.mkdir(parents=True)
    os.environ["HOME"] = str(base)
    cmd, day = build_scenario(name, seed, s0)
    snap = snapshot(s0)
    lacking: dict = {}
    for rel, data in snap.items():
        if rel.endswith(".zo"):
            lines, items = hg.scan(data.decode())
            lacking[rel] = {s + 1 for s, _e in items if hg.first_line_parts(lines[s])[2] is None}
    orig_lines = {rel: data.decode().split("\n") for rel, data in snap.items() if rel.endswith(".zo")}
    work = base / "w" / "org"
    # uninterrupted run with tracing
    restore(work, snap)
    trace = base / "trace.json"
    r = db.cli_subprocess(work, *cmd, today=day, extra_env={"ZMON_TRACE_ROOT": str(work), "ZMON_TRACE_OUT": str(trace)})
    if r.rc != 0 or not trace.exists():
        acc.inconclusive.append(f"{name}: uninterrupted run failed rc={r.rc} {r.err[-300:]}")
        return acc.result()
    events = [e for e in json.loads(trace.read_text()) if e[0] != "mkdir"]
    n = len(events)
    acc.count("effects.total", n if unit["shard"] == 0 else 0)
    b_files, b_dump, b_problems = masked_state(work, lacking)
    # pages whose uninterrupted run changed a line of a note that already HAD a ZID (= got a modify-date stamp)
    stamped_pages = set()
    for rel, ol in orig_lines.items():
        if (work / rel).exists():
            fl = (work / rel).read_text().split("\n")
            if any(a_ != b_ and (i + 1) not in lacking.get(rel, ()) for i, (a_, b_) in enumerate(zip(ol, fl))):
                stamped_pages.add(rel)
    base_final = sorted(db.canon(x) for x in mask(b_dump.notes, lacking))
    if b_problems or b_dump.problems:
        acc.inconclusive.append(f"{name}: uninterrupted run leaves problems {b_problems} {b_dump.problems[:2]}")
        return acc.result()
    points = [(k, None) for k in range(1, n + 1)]
    if unit["tier"] == "thorough":
        for k in range(1, n + 1):
            if events[k - 1][0] == "write":
                points += [(k, 0.34), (k, 0.67)]
    mine = [p for i, p in enumerate(points) if i % unit["of"] == unit["shard"]]
    cache: dict = {}

    def eval_point(k, torn):
        """Runs crash point (k, torn) + rerun + oracle; returns ('skip'|'inconclusive'|'ok', [violations])."""
        if (k, torn) in cache:
            return cache[(k, torn)]
        ev = events[k - 1]
        restore(work, snap)
        env = {"ZMON_TRACE_ROOT": str(work), "ZMON_CRASH_AT": str(k)}
        if torn:
            env["ZMON_TORN"] = str(torn)
        acc.count("crash.injected")
        r1 = db.cli_subprocess(work, *cmd, today=day, extra_env=env)
        if r1.rc == 88:
            cache[(k, torn)] = ("skip", [])
            return cache[(k, torn)]
        if r1.rc not in (86, 87):
            cache[(k, torn)] = ("inconclusive", [f"{name} k={k} torn={torn}: failpoint did not fire (rc={r1.rc}); effect order not reproducible? {r1.err[-200:]}"])
            return cache[(k, torn)]
        acc.count("crash.exit86")
        r2 = db.cli_subprocess(work, *cmd, today=day)
        label = f"{ev[0]} {ev[1] if len(ev) > 1 else ''}" + (f" torn@{torn}" if torn else "")
        sfx = " (torn write)" if torn else ""
        out = []
        if r2.rc != 0:
            out.append(("rerun after crash fails" + sfx, f"{name}: crash before effect #{k} ({label}); rerunning `{' '.join(cmd)}` fails rc={r2.rc}: {r2.err[-300:]}", None))
            cache[(k, torn)] = ("ok", out)
            return cache[(k, torn)]
        acc.count("rerun.ok")
        files, dump, problems = masked_state(work, lacking)
        for p_ in problems + dump.problems:
            out.append(("state broken after crash+rerun" + sfx, f"{name}: crash before #{k} ({label}) + rerun: {p_}", None))
        oa, ob = multiset_diff(files, dump.notes, db.NOTE_KEYS)
        if oa or ob:
            finding = None
            if not torn and ev[0] == "write" and not ev[1].startswith(".zorg") and any(e[0] == "write" and e[1] == ev[1] for e in events[: k - 1]):
                # known mechanism: the page needs two write-backs OF DIFFERENT KINDS in one run (modify dates,
                # then new ZIDs); the hash recorded after the first one makes the rerun skip the page.  It
                # explains the discrepancy iff the page really needed both a stamp and a ZID, is written exactly
                # twice in the uninterrupted run, and every differing record belongs to exactly that page.
                n_writes = sum(1 for e in events if e[0] == "write" and e[1] == ev[1])
                if ev[1] in stamped_pages and lacking.get(ev[1]) and n_writes == 2 and all(json.loads(dict(x)["page"]) == ev[1] for x in oa + ob):
                    finding = FINDING_2ND
            out.append(("index != files after crash+rerun (" + _fields(oa, ob) + ")" + sfx, f"{name}: crash before #{k} ({label}) + rerun: files vs index: " + describe_diff(oa, ob, "files", "index"), finding))
        zs = [x["zid"] for x in dump.notes]
        fz = [x["zid"] for x in files if x["zid"]]
        if len(set(fz)) != len(fz) or len(set(zs)) != len(zs):
            out.append(("duplicate ZID after crash+rerun" + sfx, f"{name}: crash before #{k} ({label}) + rerun: a ZID is carried by two different notes", None))
        for rel, ol in orig_lines.items():
            f = work / rel
            if not f.exists():
                continue
            nl = f.read_text().split("\n")
            if len(nl) != len(ol) or any(not _same_modulo_ids(a_, b_) for a_, b_ in zip(ol, nl)):
                out.append(("user text lost after crash+rerun" + sfx, f"{name}: crash before #{k} ({label}) + rerun: user text of {rel} changed beyond inserted ZID/YYMMDD words", None))
                break
        if not out:
            final = sorted(db.canon(x) for x in mask(dump.notes, lacking))
            if final != base_final:
                oa, ob = multiset_diff(mask(dump.notes, lacking), mask(b_dump.notes, lacking), db.NOTE_KEYS)
                finding = None
                first_hash_write = next((i for i, e in enumerate(events) if e == ["write", ".zorg/file_hash.json"]), len(events))
                if not torn and ev[0] == "commit" and k - 1 < first_hash_write and _only_missing_stamps(oa, ob, day):
                    finding = FINDING_STAMP
                out.append(("final state differs from uninterrupted run (" + _fields(oa, ob) + ")" + sfx, f"{name}: crash before #{k} ({label}) + rerun: final index differs from the uninterrupted run (beyond names of allocated ZIDs): " + describe_diff(oa, ob, "crash+rerun", "uninterrupted"), finding))
            before = snapshot(work)
            r3 = db.cli_subprocess(work, "db", "reindex", today=day)
            after = snapshot(work)
            ch = [x for x in after if x.endswith(".zo") and after[x] != before.get(x)]
            if r3.rc != 0 or ch:
                out.append(("not a fixpoint after crash+rerun" + sfx, f"{name}: crash before #{k} ({label}) + rerun: a further reindex rc={r3.rc} changes {ch}", None))
        cache[(k, torn)] = ("ok", out)
        return cache[(k, torn)]

    for k, torn in mine:
        ev = events[k - 1]
        case = {"scenario": name, "seed": seed, "k": k, "torn": torn, "effect": ev, "cmd": cmd, "effects": events}
        acc.evaluations += 1
        status, out = eval_point(k, torn)
        if status == "skip":
            acc.not_judged += 1
            continue
        if status == "inconclusive":
            acc.inconclusive.extend(out)
            continue
        acc.judged += 1
        if torn and out:
            # known mechanism (in-place, non-atomic writes): a torn file stays behind.  It explains the
            # WHOLE discrepancy iff the very same crash point without the tear (i.e. with the file still
            # holding its complete old content) is handled correctly.
            pstatus, pout = eval_point(k, None)
            clean = pstatus == "ok" and not [o for o in pout if o[2] is None]
            out = [(c_, m_, FINDING_TORN if clean else None) for c_, m_, _f in out]
        for cls, msg, finding in out:
            acc.violation(msg, case, cls=cls, finding=finding)
        acc.sig((name if not name.startswith("rand") else "rand", ev[0], ev[1] if len(ev) > 1 else "", torn))
        if len(acc.samples) < 2:
            acc.sample({"scenario": name, "cmd": cmd, "effects_of_uninterrupted_run": events, "crash_before": k, "torn": torn, "violations": [o[0] for o in out]})
    if unit["shard"] == 0:
        acc.exhaustive_dims[f"crash_points[{name}]"] = len(points)
    shutil.rmtree(base, ignore_errors=True)
    return acc.result()


def _only_missing_stamps(oa, ob, day) -> bool:
    """Known mechanism: the kill hit one of the commits inside the removal of the old
    page rows, so the rerun no longer finds the previous state of some notes and does
    not stamp them.  Explains the difference iff each differing note is identical in
    both runs except that the uninterrupted run carries today's stamp."""
    ymd = day.strftime("%y%m%d")
    a = {json.loads(dict(x)["zid"]): dict(x) for x in oa}
    b = {json.loads(dict(x)["zid"]): dict(x) for x in ob}
    if set(a) != set(b) or not a:
        return False
    for z in a:
        diff = {k for k in a[z] if a[z][k] != b[z][k]}
        if not diff <= {"body", "modify"}:
            return False
        if json.loads(b[z]["modify"]) != day.isoformat():
            return False
        bw = json.loads(b[z]["body"]).split(" ")
        aw = json.loads(a[z]["body"]).split(" ")
        if bw[0] != ymd:
            return False
        rest_a = aw[1:] if (len(aw[0]) == 6 and aw[0].isdigit()) else aw
        if bw[1:] != rest_a:
            return False
    return True


def _same_modulo_ids(a: str, b: str) -> bool:
    if a == b:
        return True
    strip = lambda s: [w for w in s.split(" ") if w and not ZID_RE.fullmatch(w) and not (len(w) == 6 and w.isdigit()) and not re.fullmatch(r"\d{4}-\d{2}-\d{2}", w)]
    return strip(a) == strip(b)


def replay(case: dict) -> dict:
    acc = Acc()
    res = run_unit({"scenario": case["scenario"], "seed": case["seed"], "shard": 0, "of": 1, "tier": "thorough" if case.get("torn") else "quick"})
    res["violations"] = [v for v in res["violations"] if v["case"].get("k") == case["k"] and v["case"].get("torn") == case.get("torn")]
    return res

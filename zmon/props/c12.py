"""C12 — a note's text form compiles back to the same note.

Part 1 (units "notes"): every note the real compiler produced from a generated
page is rendered with the real ``Note.to_string``, placed under a page header,
compiled again and compared (kind, ZID, body, own tags/links/properties, dates
when it carries a ZID, priority unless done/cancelled).
Part 2 (units "select", see c12_db): ungrouped ``S note`` renderings and
refreshed ``.zoq`` pages recompile to exactly the selected notes.
"""

from __future__ import annotations

import datetime as dt
import re

from zmon import harness
from zmon.gen import page as pg
from zmon.mon.clock import frozen
from zmon.ref import pagecheck as pc
from zmon.res import Acc, rng_for

ID = "C12"
LEVEL = "exploration"
TODAY = dt.date(2031, 3, 14)
RULE = (
    "every note compiled from seeded random pages (all kinds, priorities, YYMMDD/ZID/long dates, multi-line bodies with "
    "bullets and bullet properties, hostile body words) -> Note.to_string() -> placed under '# H' -> compiled again -> "
    "field comparison; plus ungrouped 'S note' renderings / refreshed .zoq pages over generated indexes under every "
    "ordering key; plus the text `note move` writes for every indexed note of generated directories (sections carrying tags "
    "and properties, notes with a modify date before their ZID), recompiled and compared with the indexed row. distinct = distinct note feature tuples (kind, explicit priority?, YYMMDD?, ZID length, long date?, "
    "#continuation lines, word-form set); non-trivial = every compiled note."
)
ASSUMPTIONS = [
    "own metadata of a note is known from the abstract page it was rendered from",
    "notes whose first compilation already disagrees with the abstract page (known finding C01-idfree-prefix) are not judged here",
]
REQUIRED_COUNTERS = ["enter.to_string", "enter._add_note", "moves.judged"]
MIN_JUDGED = {"quick": 5000, "thorough": 100000}
FINDING_DONE_PN = "C12-done-todo-body-starts-with-Pn"


def setup_worker() -> None:
    from zorg.domain.models import Note
    from zorg.service.compiler._file_compiler import ZorgFileCompiler as Z

    harness.COUNTERS.watch_attr(Note, "to_string")
    harness.COUNTERS.watch_attr(Z, "_add_note")


def plan(tier: str, seed: int) -> list[dict]:
    n = 800 if tier == "quick" else 16000
    per = 25 if tier == "quick" else 250
    units = [{"kind": "notes", "start": s, "n": per, "seed": seed} for s in range(0, n, per)]
    try:
        from zmon.props import c12_db

        units.extend(c12_db.plan(tier, seed))
    except ImportError:
        pass
    return units


def gen_case(seed: int, idx: int):
    rng = rng_for(ID, seed, idx)
    opts = pg.GenOpts(max_items=4, max_blocks=2)
    gen = pg.PageGen(rng, opts)
    page = gen.page()
    if idx % 2 == 1:
        # trigger mode for the known finding: a done/cancelled todo with an explicit
        # priority whose body starts with a Pn word
        for _b, it in pg.iter_items(page):
            if it.kind in "x~" and it.priority is not None and it.zid is None and it.mod is None and it.ldate is None and rng.random() < 0.3:
                it.words.insert(0, pg.W("P%d" % rng.randint(0, 9), form="collision"))
    text, exp = pg.render(page)
    return page, text, exp


def done_pn_trigger(it: pg.Item) -> bool:
    return it.kind in "x~" and it.zid is None and it.mod is None and it.ldate is None and bool(it.words) and pg._looks_priority(it.words[0].text)


def check_note(acc: Acc, n, e, it, case: dict) -> None:
    """n: compiled note, e: Expected, it: abstract item."""
    acc.judged += 1
    s = n.to_string()
    text = "# H\n\n" + s
    c = harness.compile_text(text, name="rt.zo")
    case = dict(case, item_text=s)
    if c.exc is not None:
        acc.violation(f"recompiling to_string() output raised {type(c.exc).__name__}: {c.exc}", case, cls="to_string output crashes the compiler")
        return
    if c.parser_errors:
        acc.violation(f"to_string() output is not a valid item: {c.parser_errors[:2]} text={s!r}", case, cls="to_string output is not a valid item")
        return
    ms = c.page.notes
    if len(ms) != 1:
        # known mechanism with the shortest possible tail: once the body's leading Pn word has taken the place of the
        # omitted priority, nothing the lexer knows is left ('~ P9 P7 \u2014' -> '~ P7 \u2014'), i.e. an item without body
        rest = n.body.split(" ", 1)[1] if " " in n.body else ""
        fin = FINDING_DONE_PN if (len(ms) == 0 and done_pn_trigger(it) and s == f"{pc.note_kind(n)} {n.body}\n" and not re.search(r"[!-~]", rest)) else None
        acc.violation(f"to_string() output compiles to {len(ms)} notes: {s!r}", case, cls="to_string output is not exactly one note", finding=fin)
        return
    m = ms[0]
    finding = FINDING_DONE_PN if done_pn_trigger(it) else None
    diffs = []
    if pc.note_kind(m) != pc.note_kind(n):
        diffs.append(("kind changes", f"{pc.note_kind(n)} -> {pc.note_kind(m)}"))
    if m.zid != n.zid:
        diffs.append(("zid changes", f"{n.zid} -> {m.zid}"))
    if m.body != n.body:
        diffs.append(("body changes", f"{n.body!r} -> {m.body!r}"))
    for attr in ("areas", "contexts", "people", "projects", "links"):
        if sorted(getattr(m, attr)) != e.own_tags[attr]:
            diffs.append((f"own {attr} change", f"{e.own_tags[attr]} -> {sorted(getattr(m, attr))}"))
    if dict(m.properties) != e.own_props:
        diffs.append(("own properties change", f"{e.own_props} -> {dict(m.properties)}"))
    if n.zid is not None:
        if m.create_date != n.create_date:
            diffs.append(("create date changes", f"{n.create_date} -> {m.create_date}"))
        if m.modify_date != n.modify_date:
            diffs.append(("modify date changes", f"{n.modify_date} -> {m.modify_date}"))
    if n.todo_payload is not None and pc.note_kind(n) not in "x~":
        if m.todo_payload is None or m.todo_payload.priority != n.todo_payload.priority:
            diffs.append(("priority changes", f"{n.todo_payload.priority} -> {m.todo_payload.priority if m.todo_payload else None}"))
    for cls, msg in diffs:
        acc.violation(f"round trip of {s!r}: {cls}: {msg}", case, cls=cls, finding=finding if _explained_by_pn(n, m, s) else None)
    forms = tuple(sorted({w.form for w in it.all_words()}))
    acc.sig((it.kind, it.priority is not None, it.mod is not None, len(it.zid) if it.zid else 0, it.ldate is not None, len(it.cont), forms))
    if not diffs:
        acc.sample({"to_string": s, "recompiled": {"kind": pc.note_kind(m), "zid": m.zid, "body": m.body[:80]}}, cap=3)


def _explained_by_pn(n, m, s: str) -> bool:
    """The known mechanism (the priority of a done / cancelled todo is not emitted, so the Pn word that
    starts its body takes the priority's place) explains the WHOLE discrepancy iff the emitted text is
    exactly '<kind> <body>' with that leading Pn word, and the recompiled body is the original body minus
    that word and minus whatever prefix look-alikes (YYMMDD, ZID) now directly follow the new 'priority'."""
    parts = n.body.split(" ", 1)
    if not (len(parts) == 2 and pg._looks_priority(parts[0])):
        return False
    if s != f"{pc.note_kind(n)} {n.body}\n":
        return False
    rest = parts[1].strip()
    return m.body == rest or (m.zid is not None and rest.startswith(m.body.split(" ", 1)[0]) and rest.endswith(m.body))


def run_unit(unit: dict) -> dict:
    if unit["kind"] != "notes":
        from zmon.props import c12_db

        return c12_db.run_unit(unit)
    acc = Acc()
    with frozen(TODAY):
        for idx in range(unit["start"], unit["start"] + unit["n"]):
            page, text, exp = gen_case(unit["seed"], idx)
            acc.evaluations += 1
            c = harness.compile_text(text)
            if c.exc is not None or c.parser_errors:
                acc.generator_invalid += 1
                continue
            notes = c.page.notes
            if len(notes) != len(exp):
                acc.not_judged += 1
                continue
            items = {it.uid: it for _b, it in pg.iter_items(page)}
            for n, e in zip(notes, exp):
                if n.body != e.body or n.zid != e.zid:
                    acc.not_judged += 1  # first compilation already disagrees: C01's business
                    continue
                check_note(acc, n, e, items[e.uid], {"seed": unit["seed"], "idx": idx, "line": e.line_no, "text": text})
    acc.merge_counts(harness.COUNTERS.take())
    return acc.result()


def replay(case: dict) -> dict:
    if "db" in case:
        from zmon.props import c12_db

        return c12_db.replay(case)
    acc = Acc()
    with frozen(TODAY):
        page, text, exp = gen_case(case["seed"], case["idx"])
        if text != case["text"]:
            acc.inconclusive.append("generator changed since this replay was recorded")
            return acc.result()
        c = harness.compile_text(text)
        items = {it.uid: it for _b, it in pg.iter_items(page)}
        for n, e in zip(c.page.notes, exp):
            if e.line_no == case["line"]:
                check_note(acc, n, e, items[e.uid], case)
    acc.merge_counts(harness.COUNTERS.take())
    return acc.result()

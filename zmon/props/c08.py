"""C08 — indexing never crashes on any file and never silently drops a broken one.

File level: recorder around the real walk_zorg_page + injected parser listener
(the monitor's own record of "the parser reported a syntax error") + an
independent count of note/todo nodes in the parse tree the real parser built.
Directory level (units of kind "db"): real `db create` / `db reindex` through the
CLI entry point, whitelist file and raw SQLite rows read afterwards.
"""

from __future__ import annotations

import datetime as dt

from zmon import harness
from zmon.gen import damage as dmg
from zmon.gen import page as pg
from zmon.mon import listeners
from zmon.mon.clock import frozen
from zmon.res import Acc, rng_for

ID = "C08"
LEVEL = "exploration"
TODAY = dt.date(2031, 3, 14)
RULE = (
    "three input classes in equal parts: valid generated pages; valid pages damaged by 1-5 random character/token/line "
    "edits (delete, insert from the grammar's alphabet, swap, duplicate/delete/insert line, truncate with/without final "
    "newline, CRLF, join, TAB/NUL/non-ASCII, hostile words such as impossible dates); arbitrary byte strings (grammar-"
    "alphabet soup, raw bytes, printable ASCII, item lines made of hostile words); plus directory-level scenarios. "
    "distinct = distinct (class, parser-error?, #notes bucket, damage-op multiset / first-error message shape) signatures; "
    "non-trivial = input is non-empty."
)
ASSUMPTIONS = [
    "'the parser reports a syntax error' is read off an ANTLR error listener injected by the harness (independent of ErrorManager)",
    "termination is judged as bounded progress: a 120 s watchdog per shard of small inputs (<= 8 KB) makes the run inconclusive, never violated",
    "lexer-only complaints (token recognition errors) are recorded but not judged: the statement speaks of parser syntax errors",
]
REQUIRED_COUNTERS = ["enter._add_note", "enter.syntaxError", "listener.parser_error_pages", "listener.clean_pages"]
MIN_JUDGED = {"quick": 1500, "thorough": 30000}
FINDING_NOTELESS = "C08-unflagged-noteless"


def setup_worker() -> None:
    from zorg.service.compiler._file_compiler import ErrorManager, ZorgFileCompiler as Z

    harness.COUNTERS.watch_attr(Z, "_add_note")
    harness.COUNTERS.watch_attr(ErrorManager, "syntaxError")


def plan(tier: str, seed: int) -> list[dict]:
    n = 2400 if tier == "quick" else 60000
    per = 50 if tier == "quick" else 500
    units = [{"kind": "file", "start": s, "n": per, "seed": seed} for s in range(0, n, per)]
    units.append({"kind": "fixed"})
    from zmon.props import c08_db

    units.extend(c08_db.plan(tier, seed))
    return units


def count_tree_notes(tree) -> int:
    """Independent walk of the parse tree: note/todo nodes with a non-blank body."""
    n = 0
    stack = [tree]
    while stack:
        t = stack.pop()
        name = type(t).__name__
        if name in ("Base_noteContext", "Base_todoContext"):
            nb = t.note_body()
            if nb is not None and nb.getText().strip() != "":
                n += 1
        kids = getattr(t, "children", None)
        if kids:
            stack.extend(kids)
    return n


def gen_case(seed: int, idx: int):
    rng = rng_for(ID, seed, idx)
    cls = idx % 3
    if cls == 0:
        opts = pg.GenOpts(max_items=3, max_blocks=2, allow_idfree_trigger=True)
        text, _ = pg.render(pg.PageGen(rng, opts).page())
        return "valid", text.encode(), []
    if cls == 1:
        opts = pg.GenOpts(max_items=3, max_blocks=1, allow_idfree_trigger=True)
        text, _ = pg.render(pg.PageGen(rng, opts).page())
        text, ops = dmg.damage(text, rng)
        return "damaged", text.encode("utf-8", "surrogatepass"), ops
    return "garbage", dmg.garbage(rng), []


FIXED = [
    b"", b"\n", b"#", b"# T", b"# T\n", b"# T\n\n", b"garbage", b"garbage\n", b"# T\n- no blank line\n", b"# T\n\n- a\n", b"# T\n\n- a",
    b"# T\n\n- 240101#AB\n  * k:: v\n", b"# T\n\n- 240102 240101#AB\n  * k:: v\n", b"# T\n\no P1 foo\n    - \n  * k:: v\n",
    b"# T\n\n- 123456 foo\n", b"# T\n\n- 230229 foo\n", b"# T\n\no 250229#A1 foo\n", b"# T\n\n- 250301 250229#A1 foo\n", b"# T\n\n- 2023-02-29 foo\n", b"# T\n\n- 240431 foo\n", b"# T 2023-02-29\n\n- 240229#Ab leap day is fine\n", b"# T\n\n- 241939#AB foo\n", b"# T\n\n- 240231#AB foo\n", b"# T\n\n- 2024-13-45 foo\n", b"# T\n\n- 2024-02-30 foo\n",
    b"# T 2024-19-39\n\n- foo\n", b"# T\n\n######## not a header\n", b"# T\n\n-------- H4 first\n- a\n", b"# T\n\n++++++++++++++++ H3 first\n- a\n",
    b"# T\n\n- [a::b::c] foo\n", b"# T\n\n- foo [a::b::c]\n", b"# T\n\n- foo\n\n\n\n", b"# T\r\n\r\n- foo\r\n", b"\xef\xbb\xbf# T\n\n- foo\n", b"# T\n\n- caf\xc3\xa9\n",
    b"# T\n\n- foo\n  * \n", b"# T\n\n- foo\n  * k::\n", b"# T\n\n- k:: \n", b"# T\n\n- 240101#AB 240102\n", b"# T\n\no\n", b"# T\n\no P1\n", b"# T\n\n- \n", b"# T\n\n-\n",
    b"# T\n\n################################ A\n======================== B\n++++++++++++++++ C\n-------- D\n- x\n", b"# T\n\n======================== B\n-------- D\n- x\n",
]


def judge(acc: Acc, cls: str, data: bytes, ops, case: dict) -> None:
    acc.evaluations += 1
    c = harness.compile_text(data)
    if c.exc is not None:
        acc.judged += 1
        import traceback

        tb = traceback.extract_tb(c.exc.__traceback__)
        where = next((f"{fr.name}:{fr.line}" for fr in reversed(tb) if "/zorg/" in fr.filename), "?")
        site = next((fr.name for fr in reversed(tb) if "/zorg/" in fr.filename), "?")
        finding = classify_exception(c.exc, site, tb)
        acc.violation(f"walk_zorg_page raised {type(c.exc).__name__}: {str(c.exc)[:200]} at {where}", case, cls=f"exception {type(c.exc).__name__} in {site}", finding=finding)
        acc.sig((cls, "exc", type(c.exc).__name__, site))
        return
    acc.judged += 1
    notes = c.page.notes
    if c.parser_errors:
        acc.count("listener.parser_error_pages")
        if not c.page.has_errors:
            # known mechanism: has_errors is only ever set when the walk reaches a
            # non-empty note; the classifier therefore demands that the parse tree
            # holds NO such note (and that none was compiled).
            tree_notes = count_tree_notes(listeners.FILE.tree) if listeners.FILE.tree is not None else -1
            finding = FINDING_NOTELESS if (not notes and tree_notes == 0) else None
            acc.violation(f"parser reported {len(c.parser_errors)} syntax error(s) (first: {c.parser_errors[0][:100]}) but has_errors is False; {len(notes)} notes compiled, parse tree holds {tree_notes} items", case, cls="parser errors but page not flagged" + (" (and notes compiled)" if notes else (" (no item in the tree)" if tree_notes == 0 else " (items in the tree)")), finding=finding)
        elif notes:
            acc.violation(f"page flagged but {len(notes)} notes were still compiled (partial page)", case, cls="flagged page still yields notes")
    else:
        acc.count("listener.clean_pages")
        if c.page.has_errors:
            acc.violation("parser reported no syntax error but the page is flagged", case, cls="clean page flagged")
        want = count_tree_notes(listeners.FILE.tree)
        if len(notes) != want:
            acc.violation(f"clean page: {len(notes)} notes compiled but the parse tree holds {want} note/todo items", case, cls="clean page: note count differs from parse tree")
    if data:
        msg = ""
        if c.parser_errors:
            m = c.parser_errors[0].split(" ", 1)[1]
            msg = m.split("'")[0][:24]
        acc.sig((cls, bool(c.parser_errors), min(len(notes), 5), tuple(sorted(set(ops))), msg))
    acc.sample({"class": cls, "input": data[:300].decode("latin-1"), "parser_errors": c.parser_errors[:2], "has_errors": c.page.has_errors, "notes": len(notes)}, cap=4)


def classify_exception(exc, site: str, tb) -> str | None:
    return None


def run_unit(unit: dict) -> dict:
    if unit["kind"] == "db":
        from zmon.props import c08_db

        return c08_db.run_unit(unit)
    acc = Acc()
    with frozen(TODAY):
        if unit["kind"] == "file":
            for idx in range(unit["start"], unit["start"] + unit["n"]):
                cls, data, ops = gen_case(unit["seed"], idx)
                judge(acc, cls, data, ops, {"data_latin1": data.decode("latin-1"), "cls": cls})
        elif unit["kind"] == "fixed":
            for data in FIXED:
                judge(acc, "fixed", data, [], {"data_latin1": data.decode("latin-1"), "cls": "fixed"})
    acc.merge_counts(harness.COUNTERS.take())
    return acc.result()


def replay(case: dict) -> dict:
    if "db" in case:
        from zmon.props import c08_db

        return c08_db.replay(case)
    acc = Acc()
    with frozen(TODAY):
        judge(acc, case.get("cls", "replay"), case["data_latin1"].encode("latin-1"), [], case)
    acc.merge_counts(harness.COUNTERS.take())
    return acc.result()

"""C07 — ZIDs are unique, well-formed and recognised by every component.

* the ENTIRE successor chain from '00' is walked through the real
  ``_get_next_id`` and compared with an independent odometer (exhaustive);
* icontract contracts on the real ``_get_next_id`` / ``ZIDManager.get_next``;
* recorded allocation histories over several dates with manager re-creation
  (restart) between allocations, ``next_ids.json`` pre-seeded near roll-overs;
* every suffix (quick: roll-over neighbourhoods + sample; thorough: all) is
  pushed through both real lexers, ``is_zid`` and the real page compiler.
"""

from __future__ import annotations

import datetime as dt
import itertools
import json
import re
import shutil
from pathlib import Path

from zmon import harness
from zmon.mon import contracts
from zmon.res import Acc, rng_for

ID = "C07"
LEVEL = "exploration"
RULE = (
    "exhaustive walk of the successor chain (51^2 + 51^3 = 135252 suffixes) against an independent odometer; seeded "
    "allocation histories (1-5 dates, restart between any two allocations, next_ids.json pre-seeded near 09/0Z/0z/9z/Zz/"
    "zz/zzx) checked for uniqueness, form, persistence of the successor; suffix x date batches through ZorgFileLexer, "
    "ZorgQueryLexer, is_zid and walk_zorg_page. distinct = distinct suffixes lexed/compiled + distinct history shapes "
    "(#dates, #restarts, seeded start suffix); non-trivial = every suffix and every history with >= 2 allocations."
)
ASSUMPTIONS = [
    "the excluded look-alike characters are I O Q S g i j l p q y (the statement's 135,252 = 51^2 + 51^3 fixes the alphabet size at 51)",
    "restart = a new ZIDManager object (all state lives in .zorg/next_ids.json)",
]
REQUIRED_COUNTERS = ["contract_evals._get_next_id", "contract_evals.get_next", "chain.steps", "lex.file_tokens", "lex.query_tokens", "compile.zids"]
MIN_JUDGED = {"quick": 3000, "thorough": 135252}
FINDING_LAST = "C07-last-suffix-never-allocated"

DIGITS = "0123456789"
UPPER = "ABCDEFGHIJKLMNOPQRSTUVWXYZ"
LOWER = "abcdefghijklmnopqrstuvwxyz"
EXCLUDED = set("IOQSgijlpqy")
ALPHABET = [c for c in DIGITS + UPPER + LOWER if c not in EXCLUDED]
assert len(ALPHABET) == 51
ZID_FORM = re.compile(r"^\d{6}#[" + re.escape("".join(ALPHABET)) + r"]{2,3}$")


def ref_chain():
    for n in (2, 3):
        for t in itertools.product(ALPHABET, repeat=n):
            yield "".join(t)


REF = list(ref_chain())
REF_INDEX = {s: i for i, s in enumerate(REF)}
assert len(REF) == 135252

_S: dict = {"allocated": None, "contract_viol": []}


def setup_worker() -> None:
    import zorg.storage.sql._zid_manager as zm

    if not hasattr(zm, "_get_next_id"):
        contracts.bump("missing.contract_evals._get_next_id")
        contracts.bump("missing.chain.steps")
    if not hasattr(getattr(zm, "ZIDManager", None), "get_next"):
        contracts.bump("missing.contract_evals.get_next")
    if contracts.AVAILABLE and hasattr(zm, "_get_next_id") and hasattr(getattr(zm, "ZIDManager", None), "get_next"):
        ic = contracts.icontract

        def successor_is_next_in_odometer_order(last_id, result):
            contracts.bump("contract_evals._get_next_id")
            i = REF_INDEX.get(last_id)
            if i is None:
                return True  # not an allocator-produced suffix: outside the statement
            if i + 1 >= len(REF) or result != REF[i + 1]:
                _S["contract_viol"].append(f"_get_next_id({last_id!r}) = {result!r}, odometer successor is {REF[i + 1] if i + 1 < len(REF) else None!r}")
            return True

        zm._get_next_id = ic.ensure(successor_is_next_in_odometer_order, error=contracts.ContractBroken)(zm._get_next_id)

        def stored_map(self):
            p = self._next_ids_path
            return json.loads(p.read_text()) if p.exists() else {}

        def fresh_and_persisted(self, date, result, OLD):
            contracts.bump("contract_evals.get_next")
            day = date.strftime("%y%m%d")
            if not ZID_FORM.match(result) or not result.startswith(day + "#"):
                _S["contract_viol"].append(f"get_next({date}) returned malformed {result!r}")
            alloc = _S["allocated"]
            if alloc is not None:
                if result in alloc:
                    _S["contract_viol"].append(f"get_next({date}) returned {result!r} a second time")
                alloc.add(result)
            now = stored_map(self)
            suf = result.split("#")[1]
            i = REF_INDEX.get(suf)
            if i is not None and i + 1 < len(REF) and now.get(day) != REF[i + 1]:
                _S["contract_viol"].append(f"after handing out {result!r} next_ids.json holds {now.get(day)!r}, expected {REF[i + 1]!r}")
            for k, v in OLD.before.items():
                if k != day and now.get(k) != v:
                    _S["contract_viol"].append(f"allocation for {day} changed the entry of {k}: {v!r} -> {now.get(k)!r}")
            return True

        zm.ZIDManager.get_next = ic.snapshot(stored_map, name="before")(ic.ensure(fresh_and_persisted, error=contracts.ContractBroken)(zm.ZIDManager.get_next))


def plan(tier: str, seed: int) -> list[dict]:
    units = [{"kind": "chain"}]
    nshards = 16 if tier == "quick" else 48
    for s in range(nshards):
        units.append({"kind": "lex", "shard": s, "of": nshards, "tier": tier, "seed": seed})
    nh = 960 if tier == "quick" else 6000
    per = 20 if tier == "quick" else 100
    for s in range(0, nh, per):
        units.append({"kind": "hist", "start": s, "n": per, "seed": seed})
    units.append({"kind": "exhaust", "tier": tier})
    for i in range(8 if tier == "quick" else 60):
        units.append({"kind": "cli", "idx": i, "seed": seed})
    return units


# ---------------------------------------------------------------- chain
def unit_chain(acc: Acc) -> None:
    import zorg.storage.sql._zid_manager as zm

    if not hasattr(zm, "_get_next_id"):
        acc.not_judged += 1  # the successor function no longer exists under that name: histories / exhaustion still decide
        return
    cur = "00"
    i = 0
    acc.evaluations += 1
    acc.judged += 1
    case = {"unit": "chain"}
    while True:
        if i >= len(REF) or cur != REF[i]:
            acc.violation(f"successor chain deviates at step {i}: real={cur!r} odometer={REF[i] if i < len(REF) else None!r}", case, cls="successor chain deviates from odometer")
            break
        if any(c in EXCLUDED for c in cur):
            acc.violation(f"suffix {cur!r} contains an excluded character", case, cls="excluded character in suffix")
            break
        try:
            nxt = zm._get_next_id(cur)
        except RuntimeError as e:
            if i != len(REF) - 1:
                acc.violation(f"out-of-IDs error after only {i + 1} suffixes (at {cur!r}): {e}", case, cls="premature out-of-IDs error")
            break
        except Exception as e:
            acc.violation(f"_get_next_id({cur!r}) raised {type(e).__name__}: {e}", case, cls="successor function crashed")
            break
        if i == len(REF) - 1:
            acc.violation(f"no out-of-IDs error after the last suffix {cur!r}: got {nxt!r}", case, cls="no out-of-IDs error at the end of the chain")
            break
        cur = nxt
        i += 1
    acc.count("chain.steps", i + 1)
    acc.exhaustive_dims["successor_chain_states"] = i + 1
    for v in _S["contract_viol"][:5]:
        acc.violation(f"contract: {v}", case, cls="successor contract broken")
    _S["contract_viol"].clear()
    acc.sig(("chain", i + 1))
    acc.sample({"chain_len": i + 1, "first": REF[:3], "rollovers": [REF[REF_INDEX[s]: REF_INDEX[s] + 2] for s in ("09", "0Z", "0z", "9z", "Zz", "zz", "0zz")], "last": REF[-2:]})


# ---------------------------------------------------------------- lexing / compiling
DATES = [dt.date(2000, 1, 1), dt.date(2099, 12, 31), dt.date(2024, 2, 29), dt.date(2024, 10, 30), dt.date(2031, 3, 14), dt.date(2019, 9, 9), dt.date(2024, 11, 1), dt.date(2030, 1, 31), dt.date(2000, 2, 29), dt.date(2028, 2, 29), dt.date(2068, 12, 31), dt.date(2069, 1, 1), dt.date(2096, 2, 29)]


def _neighbourhood() -> list[str]:
    out = set()
    for s in ("00", "09", "0A", "0H", "0J", "0N", "0P", "0R", "0T", "0Z", "0a", "0f", "0h", "0k", "0m", "0o", "0r", "0x", "0z", "10", "9z", "A0", "Zz", "a0", "zz", "000", "00z", "09z", "0zz", "100", "9zz", "Zzz", "zzx", "zzz", "zz0"):
        i = REF_INDEX[s]
        for j in range(max(0, i - 3), min(len(REF), i + 4)):
            out.add(REF[j])
    return sorted(out, key=REF_INDEX.get)


def unit_lex(acc: Acc, unit: dict) -> None:
    import antlr4
    from zorg.grammar.zorg_file.ZorgFileLexer import ZorgFileLexer
    from zorg.grammar.zorg_query.ZorgQueryLexer import ZorgQueryLexer
    from zorg.shared import dates as zdt

    if unit["tier"] == "thorough":
        mine = [s for i, s in enumerate(REF) if i % unit["of"] == unit["shard"]]
        acc.exhaustive_dims["suffixes_lexed_and_compiled"] = len(mine)
    else:
        rng = rng_for(ID, unit["seed"], "lex")
        pool = _neighbourhood() + rng.sample(REF, 20000)
        mine = [s for i, s in enumerate(pool) if i % unit["of"] == unit["shard"]]
    batch: list = []
    for k, suf in enumerate(mine):
        day = DATES[(k + unit["shard"]) % len(DATES)]
        zid = day.strftime("%y%m%d") + "#" + suf
        acc.evaluations += 1
        acc.judged += 1
        case = {"zid": zid}
        if not ZID_FORM.match(zid):
            acc.violation(f"{zid} is not of the form YYMMDD#XX(X)", case, cls="malformed")
        for name, L in (("file", ZorgFileLexer), ("query", ZorgQueryLexer)):
            lx = L(antlr4.InputStream(zid))
            lx.removeErrorListeners()
            toks = lx.getAllTokens()
            acc.count(f"lex.{name}_tokens", len(toks))
            if len(toks) != 1 or toks[0].type != L.ZID or toks[0].text != zid:
                acc.violation(f"{name} lexer: {zid} lexed as {[(L.symbolicNames[t.type] if 0 <= t.type < len(L.symbolicNames) else t.type, t.text) for t in toks]}", case, cls=f"{name} lexer does not produce a single ZID token")
        if not zdt.is_zid(zid):
            acc.violation(f"is_zid({zid!r}) is False", case, cls="is_zid rejects an allocatable ZID")
        batch.append((zid, day))
        acc.sig(suf)
        if len(batch) == 120 or k == len(mine) - 1:
            _compile_batch(acc, batch)
            batch = []


def _compile_batch(acc: Acc, batch) -> None:
    lines = ["# ZIDs", ""]
    kinds = ["- ", "o ", "o P1 ", "x ", "~ P9 ", "< ", "> P0 "]
    for i, (zid, _d) in enumerate(batch):
        pre = kinds[i % len(kinds)]
        mod = "250101 " if i % 5 == 0 else ""
        lines.append(f"{pre}{mod}{zid} carries w{i}")
        if i % 11 == 0:
            lines.append("")
    text = "\n".join(lines) + "\n"
    c = harness.compile_text(text, name="zids.zo")
    case = {"text": text}
    if c.exc is not None or c.parser_errors:
        acc.violation(f"page of ZID-carrying notes not compilable: exc={c.exc} errors={c.parser_errors[:2]}", case, cls="page carrying ZIDs rejected")
        return
    got = [n.zid for n in c.page.notes]
    want = [z for z, _ in batch]
    acc.count("compile.zids", len(got))
    if got != want:
        bad = [(w, g) for w, g in zip(want, got) if w != g][:3]
        acc.violation(f"compiled note.zid differs from the ZID written: {bad} (counts {len(got)}/{len(want)})", case, cls="compiler does not recognise the note's own ZID")
    for n, (z, d) in zip(c.page.notes, batch):
        if n.create_date != d:
            acc.violation(f"note with {z} has create_date {n.create_date}, ZID says {d}", case, cls="ZID date not taken as creation date")
            break


# ---------------------------------------------------------------- histories
SEEDS = ["09", "0Z", "0z", "9z", "Zz", "zx", "zz", "000", "00z", "0zz", "9zz", "Hzz", "zzs", "zzt"]


def unit_hist(acc: Acc, unit: dict) -> None:
    from zorg.storage.sql._zid_manager import ZIDManager

    for idx in range(unit["start"], unit["start"] + unit["n"]):
        rng = rng_for(ID, unit["seed"], f"h{idx}")
        root = harness.fresh_dir("c07") / "org"
        root.mkdir()
        ndates = rng.randint(1, 5)
        days = [(rng.choice(DATES) if rng.random() < 0.15 else dt.date(2024, 1, 1) + dt.timedelta(days=rng.randint(0, 3000))) for _ in range(ndates)]
        days = list(dict.fromkeys(days))
        ndates = len(days)
        pre = {}
        if rng.random() < 0.6:
            (root / ".zorg").mkdir()
            for d in days:
                if rng.random() < 0.6:
                    pre[d.strftime("%y%m%d")] = rng.choice(SEEDS)
            (root / ".zorg" / "next_ids.json").write_text(json.dumps(pre))
        nalloc = rng.randint(2, 60)
        _S["allocated"] = set()
        _S["contract_viol"].clear()
        seen: dict = {}
        mgr = ZIDManager(root)
        restarts = 0
        hist = []
        acc.evaluations += 1
        case = {"seed": unit["seed"], "idx": idx}
        ok = True
        for k in range(nalloc):
            if rng.random() < 0.4:
                mgr = ZIDManager(root)
                restarts += 1
                hist.append("restart")
            d = rng.choice(days)
            try:
                z = mgr.get_next(d)
            except RuntimeError as e:
                # legitimate only when every suffix of that date has been handed out
                handed = sum(1 for zz in seen if zz.startswith(d.strftime("%y%m%d")))
                start = pre.get(d.strftime("%y%m%d"), "00")
                remaining = len(REF) - REF_INDEX[start]
                if handed == remaining - 1:
                    acc.violation(f"out-of-IDs for {d} after {handed} of the {remaining} remaining suffixes (the last suffix 'zzz' was never handed out): {e}", case, cls="last suffix never handed out", finding=FINDING_LAST)
                elif handed < remaining:
                    acc.violation(f"premature out-of-IDs for {d} after {handed}/{remaining}: {e}", case, cls="premature out-of-IDs error")
                hist.append(("fail", d.isoformat()))
                continue
            except Exception as e:
                acc.violation(f"get_next({d}) raised {type(e).__name__}: {e}", case, cls="allocation crashed")
                ok = False
                break
            hist.append((d.isoformat(), z))
            if z in seen:
                acc.violation(f"ZID {z} allocated twice (allocation #{seen[z]} and #{k}) in history {hist[-8:]}", case, cls="duplicate allocation")
                ok = False
            seen[z] = k
            if not ZID_FORM.match(z) or not z.startswith(d.strftime("%y%m%d")):
                acc.violation(f"allocated ZID {z} malformed for date {d}", case, cls="malformed allocation")
        for v in _S["contract_viol"][:3]:
            acc.violation(f"contract: {v}", case, cls="allocation contract broken: " + v.split("(")[0])
        _S["contract_viol"].clear()
        _S["allocated"] = None
        acc.judged += 1
        acc.sig(("hist", ndates, min(restarts, 5), tuple(sorted(set(pre.values())))))
        if ok:
            acc.sample({"history": hist[:12], "preseeded": pre}, cap=2)
        shutil.rmtree(root.parent, ignore_errors=True)


def unit_exhaust(acc: Acc, unit: dict) -> None:
    """Runs the real allocator to exhaustion (thorough: from '00'; quick: from 'zz0')."""
    from zorg.storage.sql._zid_manager import ZIDManager

    root = harness.fresh_dir("c07x") / "org"
    (root / ".zorg").mkdir(parents=True)
    day = dt.date(2031, 3, 14)
    key = day.strftime("%y%m%d")
    start = "00" if unit["tier"] == "thorough" else "zz0"
    (root / ".zorg" / "next_ids.json").write_text(json.dumps({key: start}))
    expected = REF[REF_INDEX[start] :]
    got = []
    mgr = ZIDManager(root)
    _S["allocated"] = set()
    case = {"unit": "exhaust", "start": start}
    acc.evaluations += 1
    acc.judged += 1
    err = None
    for i in range(len(expected) + 5):
        if i % 997 == 0:
            mgr = ZIDManager(root)  # restart now and then
        try:
            got.append(mgr.get_next(day).split("#")[1])
        except RuntimeError as e:
            err = e
            break
        except Exception as e:
            acc.violation(f"allocation #{i} raised {type(e).__name__}: {e}", case, cls="allocation crashed")
            return
    _S["allocated"] = None
    if err is None:
        acc.violation(f"no out-of-IDs error after {len(got)} allocations", case, cls="no out-of-IDs error at exhaustion")
    elif got == expected[:-1]:
        acc.violation(f"allocation failed after {len(got)} of {len(expected)} suffixes: the last suffix {expected[-1]!r} is never handed out ({err})", case, cls="last suffix never handed out", finding=FINDING_LAST)
    elif got != expected:
        k = next((j for j, (a, b) in enumerate(zip(got, expected)) if a != b), min(len(got), len(expected)))
        acc.violation(f"allocation sequence deviates at #{k}: got {got[k:k+2]} expected {expected[k:k+2]}; {len(got)}/{len(expected)} handed out", case, cls="allocation sequence deviates / premature out-of-IDs")
    for v in _S["contract_viol"][:3]:
        acc.violation(f"contract: {v}", case, cls="allocation contract broken: " + v.split("(")[0])
    _S["contract_viol"].clear()
    acc.sig(("exhaust", start, len(got)))
    if unit["tier"] == "thorough":
        acc.exhaustive_dims["real_allocations_to_exhaustion"] = len(got)
    shutil.rmtree(root.parent, ignore_errors=True)


def unit_cli(acc: Acc, unit: dict) -> None:
    """Allocations as a user causes them: `db create` / `db reindex` over pages whose new notes carry
    back-dated YYYY-MM-DD creation dates in non-monotonic order, one process-like command at a time."""
    from zmon import db
    from zmon.gen import history as hg
    from zmon.mon.clock import frozen

    rng = rng_for(ID, unit["seed"], f"cli{unit['idx']}")
    root = harness.fresh_dir("c07cli") / "org"
    root.mkdir()
    days = [dt.date(2024, 3, 10) + dt.timedelta(days=rng.randint(0, 4)) for _ in range(3)]
    today = dt.date(2031, 3, 14)
    n = 0

    def new_lines(k):
        nonlocal n
        out = []
        for _ in range(k):
            n += 1
            d = rng.choice(days + [None])
            out.append(rng.choice(["- ", "o ", "o P1 "]) + (d.isoformat() + " " if d else "") + f"note number {n}")
        return out

    pages = {"a.zo": ["# A", ""] + new_lines(rng.randint(2, 5)), "sub/b.zo": ["# B", ""] + new_lines(rng.randint(2, 5))}
    for rel, lines in pages.items():
        f = root / rel
        f.parent.mkdir(parents=True, exist_ok=True)
        f.write_text("\n".join(lines) + "\n")
    case = {"unit": "cli", "idx": unit["idx"], "seed": unit["seed"]}
    acc.evaluations += 1
    acc.judged += 1
    with frozen(today):
        cmds = [("db", "create")] + [("db", "reindex")] * rng.randint(2, 4)
        for ci, cmd in enumerate(cmds):
            if ci > 0:
                rel = rng.choice(sorted(pages))
                f = root / rel
                f.write_text(f.read_text() + "\n".join(new_lines(rng.randint(1, 3))) + "\n")
            r = db.cli(root, *cmd)
            if r.rc != 0:
                acc.violation(f"`{' '.join(cmd)}` failed rc={r.rc} {r.err[-200:]}", case, cls="command fails while allocating ZIDs")
                return
            zids = []
            for f in hg.zo_files(root):
                lines, items = hg.scan(f.read_text())
                for s_, _e in items:
                    z = hg.first_line_parts(lines[s_])[2]
                    if z is None:
                        acc.violation(f"note without ZID after `{' '.join(cmd)}`: {lines[s_]!r}", case, cls="note without ZID after indexing")
                    else:
                        zids.append(z)
            dup = sorted({z for z in zids if zids.count(z) > 1})
            if dup:
                acc.violation(f"after command #{ci + 1} (`{' '.join(cmd)}`) the ZIDs {dup} are carried by two different notes", case, cls="the same ZID allocated to two notes (through db create / reindex)")
                return
            bad = [z for z in zids if not ZID_FORM.match(z)]
            if bad:
                acc.violation(f"malformed ZIDs in files: {bad}", case, cls="malformed allocation")
    acc.sig(("cli", len(cmds), len(set(days))))
    shutil.rmtree(root.parent, ignore_errors=True)


def run_unit(unit: dict) -> dict:
    acc = Acc()
    k = unit["kind"]
    if k == "cli":
        unit_cli(acc, unit)
        acc.merge_counts(contracts.take_counts())
        return acc.result()
    if k == "chain":
        unit_chain(acc)
    elif k == "lex":
        unit_lex(acc, unit)
    elif k == "hist":
        unit_hist(acc, unit)
    elif k == "exhaust":
        unit_exhaust(acc, unit)
    acc.merge_counts(contracts.take_counts())
    return acc.result()


def replay(case: dict) -> dict:
    acc = Acc()
    if case.get("unit") == "chain":
        unit_chain(acc)
    elif case.get("unit") == "exhaust":
        unit_exhaust(acc, {"tier": "quick" if case.get("start") != "00" else "thorough"})
    elif case.get("unit") == "cli":
        unit_cli(acc, case)
    elif "idx" in case:
        unit_hist(acc, {"start": case["idx"], "n": 1, "seed": case["seed"]})
    elif "zid" in case:
        z = case["zid"]
        _compile_batch(acc, [(z, dt.datetime.strptime("20" + z[:6], "%Y%m%d").date())])
        acc.judged += 1
    elif "text" in case:
        acc.inconclusive.append("batch replays are not supported; rerun the tier")
    acc.merge_counts(contracts.take_counts())
    return acc.result()

def plan(tier, seed):
    return []

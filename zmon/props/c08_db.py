"""C08, directory level: `db create` / `db reindex` refuse a page with syntax
errors unless it is whitelisted, never index it as an empty or partial page, and
index every note of clean pages.  Real CLI entry point; whitelist file and raw
sqlite rows are read afterwards."""

from __future__ import annotations

import datetime as dt
import shutil
from pathlib import Path

from zmon import db, harness
from zmon.gen import damage as dmg
from zmon.gen import page as pg
from zmon.gen import zdir as zd
from zmon.mon import listeners
from zmon.mon.clock import frozen
from zmon.res import Acc, rng_for

TODAY = dt.date(2031, 3, 14)


def plan(tier: str, seed: int) -> list[dict]:
    n = 32 if tier == "quick" else 400
    return [{"kind": "db", "idx": i, "seed": seed} for i in range(n)]


def _broken_variant(rng, valid_text: str):
    """-> (text, kind) where kind in {'flagged', 'noteless'}: a page the parser rejects."""
    from zmon.props.c08 import count_tree_notes

    for _ in range(40):
        r = rng.random()
        if r < 0.3:
            t = rng.choice(["garbage without header\n", "# T\n- no blank line after header\n", "", "# T\n\nfree text line\n", "just words"])
        else:
            t, _ops = dmg.damage(valid_text, rng)
        c = harness.compile_text(t.encode("utf-8", "surrogatepass"), name="probe.zo")
        if c.exc is None and c.parser_errors:
            tree_notes = count_tree_notes(listeners.FILE.tree) if listeners.FILE.tree is not None else 0
            return t, ("flagged" if c.page.has_errors else "noteless"), tree_notes
    return None, None, 0


def _flagged_variant(rng, valid_text: str):
    """A broken page the compiler is sure to flag: a prefix-less line right behind an item."""
    from zmon.gen import history as hg

    lines, items = hg.scan(valid_text)
    if not items:
        return None
    _s, e = rng.choice(items)
    lines.insert(e, rng.choice(["free text without an item prefix", "lost its dash", "TODO no prefix here"]))
    t = "\n".join(lines)
    c = harness.compile_text(t, name="probe.zo")
    return t if (c.exc is None and c.parser_errors and c.page.has_errors) else None


def _whitelist(root: Path) -> list[str]:
    f = root / ".zorg" / "error_file_whitelist.txt"
    return [l for l in f.read_text().split("\n") if l] if f.exists() else []


def run_unit(unit: dict) -> dict:
    from zmon.props.c08 import FINDING_NOTELESS

    acc = Acc()
    seed, idx = unit["seed"], unit["idx"]
    rng = rng_for("C08db", seed, idx)
    base = harness.fresh_dir("c08db")
    root = base / "org"
    root.mkdir()
    with frozen(TODAY):
        opts = pg.GenOpts(max_items=3, max_blocks=2, allow_mod_without_zid=False)
        z = zd.gen_zdir(rng, opts, n_pages=rng.choice([2, 3, 4]))
        z.write(root)
        orig_texts = {rel_: (root / rel_).read_text() for rel_ in z.pages}
        valid = {}
        for rel in z.pages:
            c = harness.compile_path(root, Path(rel))
            if c.exc is not None or c.parser_errors:
                acc.generator_invalid += 1
                return acc.result()
            valid[rel] = len(c.page.notes)
        victim = rng.choice(sorted(z.pages))
        good_text = (root / victim).read_text()
        bad_text, kind, tree_notes = _broken_variant(rng, good_text)
        if bad_text is None:
            acc.not_judged += 1
            return acc.result()
        case = {"db": True, "seed": seed, "idx": idx, "victim": victim, "broken_kind": kind, "bad_text": bad_text[:600]}
        fin = FINDING_NOTELESS if kind == "noteless" and tree_notes == 0 else None

        def rows(page=None):
            d = db.dump_index(root)
            return d, [n for n in d.notes if page is None or n["page"] == page]

        # ---- scenario A: broken page present from the start, no -f => refuse
        (root / victim).write_bytes(bad_text.encode("utf-8", "surrogatepass"))
        acc.evaluations += 1
        acc.judged += 1
        r = db.cli(root, "db", "create")
        d, vr = rows(victim)
        if r.rc == 0:
            acc.violation(f"`db create` accepted {victim} although the parser reports syntax errors and it is not whitelisted ({kind})", case, cls="db create accepts a non-whitelisted broken page" + (" (no item reached)" if kind == "noteless" else ""), finding=fin)
        if [p for p in d.pages if p["path"] == victim] or vr:
            acc.violation(f"after `db create` without -f the index holds page row/notes of the broken {victim}: pages={[p for p in d.pages if p['path'] == victim]} notes={len(vr)}", case, cls="broken page indexed as empty or partial page" + (" (no item reached)" if kind == "noteless" else ""), finding=fin)
        acc.sig(("A", kind, r.rc != 0))
        # ---- scenario B: -f whitelists it; clean pages fully indexed
        acc.evaluations += 1
        acc.judged += 1
        r = db.cli(root, "db", "create", "-f")
        d, vr = rows(victim)
        if r.rc != 0:
            acc.violation(f"`db create -f` failed rc={r.rc} {r.err[-200:]}", case, cls="db create -f fails")
        else:
            wl = _whitelist(root)
            if kind == "flagged" and victim not in wl:
                acc.violation(f"`db create -f`: {victim} not in the whitelist {wl}", case, cls="whitelist not updated by -f")
            if vr:
                acc.violation(f"whitelisted broken page {victim} has {len(vr)} notes in the index", case, cls="broken page partially indexed")
            pr = [p for p in d.pages if p["path"] == victim]
            if kind == "flagged" and (len(pr) != 1 or not pr[0]["has_errors"]):
                acc.violation(f"whitelisted broken page row: {pr}", case, cls="whitelisted page not recorded with has_errors")
            for rel, n in valid.items():
                if rel == victim:
                    continue
                got = len([x for x in d.notes if x["page"] == rel])
                if got != n:
                    acc.violation(f"clean page {rel}: {got} notes indexed, {n} compiled", case, cls="clean page not fully indexed")
            # C: a later create without -f accepts the whitelisted page
            r2 = db.cli(root, "db", "create")
            if r2.rc != 0 and kind == "flagged":
                acc.violation(f"`db create` refuses a whitelisted page rc={r2.rc}", case, cls="whitelisted page refused")
            acc.sig(("B", kind, len(valid)))
            # D: repair => reindex indexes its notes and drops it from the whitelist
            acc.evaluations += 1
            acc.judged += 1
            (root / victim).write_text(good_text)
            r3 = db.cli(root, "db", "reindex")
            d, vr = rows(victim)
            if r3.rc != 0:
                acc.violation(f"`db reindex` after repairing {victim} failed rc={r3.rc} {r3.err[-200:]}", case, cls="reindex fails after repair")
            else:
                if len(vr) != valid[victim]:
                    acc.violation(f"repaired page {victim}: {len(vr)} notes indexed, {valid[victim]} compiled", case, cls="repaired page not fully indexed", finding=None)
                if victim in _whitelist(root):
                    acc.violation(f"repaired page {victim} still whitelisted", case, cls="repaired page stays whitelisted")
                acc.sig(("D", kind))
                # E: break the now valid, indexed page => reindex must refuse; old rows all-or-nothing
                acc.evaluations += 1
                acc.judged += 1
                good_now = (root / victim).read_text()
                before_rows = len(vr)
                (root / victim).write_bytes(bad_text.encode("utf-8", "surrogatepass"))
                r4 = db.cli(root, "db", "reindex")
                d, vr = rows(victim)
                if r4.rc == 0:
                    acc.violation(f"`db reindex` accepted the newly broken {victim} ({kind})", case, cls="db reindex accepts a non-whitelisted broken page" + (" (no item reached)" if kind == "noteless" else ""), finding=fin)
                    pr = [p for p in d.pages if p["path"] == victim]
                    if pr and not vr and before_rows:
                        acc.violation(f"after reindex the broken {victim} is indexed as an empty page", case, cls="broken page indexed as empty or partial page" + (" (no item reached)" if kind == "noteless" else ""), finding=fin)
                else:
                    pr = [p for p in d.pages if p["path"] == victim]
                    if pr and pr[0]["has_errors"]:
                        acc.violation(f"refused page {victim} is nevertheless recorded in the index: {pr}", case, cls="refused page recorded in the index")
                    if 0 < len(vr) < before_rows:
                        acc.violation(f"after the refused reindex the index holds {len(vr)} of the page's {before_rows} previous notes", case, cls="partial page left in the index after a refused reindex")
                acc.sig(("E", kind, r4.rc != 0))
        # ---- scenario F: the whitelist's life cycle across a reindex that is refused half-way
        if len(valid) >= 2:
            by_name = sorted(valid, key=lambda r_: r_.rsplit("/", 1)[-1])
            a_rel, b_rel = by_name[0], by_name[-1]
            if a_rel.rsplit("/", 1)[-1] != b_rel.rsplit("/", 1)[-1]:
                shutil.rmtree(root / ".zorg", ignore_errors=True)
                (root / victim).write_text(good_text)
                goods = {}
                for rel in valid:
                    c = harness.compile_path(root, Path(rel))
                    goods[rel] = (root / rel).read_text() if (c.exc is None and not c.parser_errors) else None
                if goods[a_rel] is None:
                    goods[a_rel] = good_text if a_rel == victim else None
                if all(goods.get(x) for x in (a_rel, b_rel)):
                    bad_a = _flagged_variant(rng, goods[a_rel])
                    bad_b = _flagged_variant(rng, goods[b_rel])
                    if bad_a is not None and bad_b is not None:
                        fcase = dict(case, scenario="F", a=a_rel, b=b_rel)
                        acc.count("scenarioF.runs")
                        acc.evaluations += 1
                        acc.judged += 1
                        (root / a_rel).write_bytes(bad_a.encode("utf-8", "surrogatepass"))
                        r1 = db.cli(root, "db", "create", "-f")
                        (root / a_rel).write_text(goods[a_rel])
                        (root / b_rel).write_bytes(bad_b.encode("utf-8", "surrogatepass"))
                        r2 = db.cli(root, "db", "reindex")
                        (root / b_rel).write_text(goods[b_rel])
                        r3 = db.cli(root, "db", "reindex")
                        wl3 = _whitelist(root)
                        (root / a_rel).write_bytes(bad_a.encode("utf-8", "surrogatepass"))
                        r4 = db.cli(root, "db", "reindex")
                        if r1.rc != 0:
                            acc.violation(f"F1 `db create -f` failed rc={r1.rc}", fcase, cls="db create -f fails")
                        elif r2.rc == 0:
                            acc.violation(f"F2 reindex accepted the newly broken, non-whitelisted {b_rel}", fcase, cls="db reindex accepts a non-whitelisted broken page")
                        elif r3.rc != 0:
                            acc.violation(f"F3 reindex after repairing everything failed rc={r3.rc} {r3.err[-200:]}", fcase, cls="reindex fails after repair")
                        else:
                            if a_rel in wl3:
                                acc.violation(f"F3 {a_rel} was repaired and reindexed but is still whitelisted: {wl3}", fcase, cls="repaired page stays whitelisted (after a refused run)")
                            if r4.rc == 0:
                                d4 = db.dump_index(root)
                                acc.violation(f"F4 {a_rel} was whitelisted, repaired, and is broken AGAIN: reindex accepted it silently (page rows: {[p_ for p_ in d4.pages if p_['path'] == a_rel]})", fcase, cls="page broken again after repair is accepted silently")
                        acc.sig(("F", r2.rc != 0, r4.rc != 0))
        # ---- scenario G: a NEW broken page (never indexed) and repeated reindex runs: every run must refuse it
        shutil.rmtree(root / ".zorg", ignore_errors=True)
        for rel_, t_ in orig_texts.items():  # (scenario F leaves one of the generated pages broken)
            (root / rel_).write_text(t_)
        (root / victim).write_text(good_text)
        bad_new = _flagged_variant(rng, good_text)
        if bad_new is not None and db.cli(root, "db", "create").rc == 0:
            gcase = dict(case, scenario="G")
            acc.count("scenarioG.runs")
            newrel = rng.choice(["zz_new_broken.zo", "aa_new_broken.zo", "sub/new_broken.zo"])
            (root / newrel).parent.mkdir(parents=True, exist_ok=True)
            # (the copy must not duplicate ZIDs of the indexed page: strip them)
            import re as _re

            (root / newrel).write_bytes(_re.sub(r"\b\d{6}#[0-9A-Za-z]{2,3}\b ?", "", bad_new).encode("utf-8", "surrogatepass"))
            c = harness.compile_path(root, Path(newrel))
            if c.exc is None and c.parser_errors and c.page.has_errors:
                acc.evaluations += 1
                acc.judged += 1
                others = sorted(valid)
                cmds = [("db", "reindex"), ("db", "reindex"), ("db", "reindex", str(root / newrel)), ("db", "reindex", str(root / others[0]), str(root / newrel)), ("db", "reindex")]
                for k, cmd in enumerate(cmds):
                    rg = db.cli(root, *cmd)
                    dg = db.dump_index(root)
                    if rg.rc == 0:
                        acc.violation(f"G run {k + 1} (`{' '.join(cmd[:2])}{' <paths>' if len(cmd) > 2 else ''}`) silently accepted / skipped the never-indexed broken page {newrel} (unchanged since the previous refusal)", gcase, cls="new broken page is refused once and silently skipped afterwards")
                        break
                    if [p_ for p_ in dg.pages if p_["path"] == newrel] or [n for n in dg.notes if n["page"] == newrel]:
                        acc.violation(f"G run {k + 1}: the refused new page {newrel} is in the index", gcase, cls="refused page recorded in the index")
                        break
                else:
                    # repaired => accepted and fully indexed
                    good_new = _re.sub(r"\b\d{6}#[0-9A-Za-z]{2,3}\b ?", "", good_text)
                    (root / newrel).write_text(good_new)
                    cg = harness.compile_path(root, Path(newrel))
                    if cg.exc is None and not cg.parser_errors:
                        want = len(cg.page.notes)
                        rg = db.cli(root, "db", "reindex")
                        dg = db.dump_index(root)
                        got = len([n for n in dg.notes if n["page"] == newrel])
                        if rg.rc != 0:
                            acc.violation(f"G: reindex after repairing the new page failed rc={rg.rc} {rg.err[-200:]}", gcase, cls="reindex fails after repair")
                        elif got != want:
                            acc.violation(f"G: repaired new page {newrel}: {got} notes indexed, {want} compiled", gcase, cls="repaired page not fully indexed")
                acc.sig(("G", newrel.split("_")[0]))
        # ---- scenario H: a whitelisted broken page whose NAME contains a blank, next to a broken page named like a fragment of it
        shutil.rmtree(root / ".zorg", ignore_errors=True)
        for extra in ("zz_new_broken.zo", "aa_new_broken.zo", "sub/new_broken.zo"):
            if (root / extra).exists():
                (root / extra).unlink()
        for rel_, t_ in orig_texts.items():
            (root / rel_).write_text(t_)
        (root / victim).write_text(good_text)
        bad_h = _flagged_variant(rng, good_text)
        if bad_h is not None and idx % 2 == 0:
            import re as _re2

            hcase = dict(case, scenario="H")
            spaced, frag = "old jottings.zo", "jottings.zo"  # (names no generated page carries)
            body_h = _re2.sub(r"\b\d{6}#[0-9A-Za-z]{2,3}\b ?", "", bad_h)
            (root / spaced).write_bytes(body_h.encode("utf-8", "surrogatepass"))
            ch = harness.compile_path(root, Path(spaced))
            if ch.exc is None and ch.parser_errors and ch.page.has_errors:
                acc.count("scenarioH.runs")
                acc.evaluations += 1
                acc.judged += 1
                r1 = db.cli(root, "db", "create", "-f")
                wl = _whitelist(root)
                r2 = db.cli(root, "db", "create")
                (root / frag).write_bytes(body_h.encode("utf-8", "surrogatepass"))
                r3 = db.cli(root, "db", "reindex")
                d3 = db.dump_index(root)
                wl3 = _whitelist(root)
                if r1.rc != 0:
                    acc.violation(f"H1 `db create -f` failed rc={r1.rc} {r1.err[-200:]}", hcase, cls="db create -f fails")
                elif spaced not in wl:
                    acc.violation(f"H1 `db create -f`: {spaced!r} not in the whitelist {wl}", hcase, cls="whitelist not updated by -f")
                elif r2.rc != 0:
                    acc.violation(f"H2 `db create` refuses the whitelisted page {spaced!r} rc={r2.rc}", hcase, cls="whitelisted page refused")
                elif r3.rc == 0:
                    acc.violation(f"H3 `db reindex` accepted the new broken, non-whitelisted page {frag!r} (whitelist {wl3}; page rows {[p_ for p_ in d3.pages if p_['path'] == frag]})", hcase, cls="db reindex accepts a non-whitelisted broken page")
                elif spaced not in wl3:
                    acc.violation(f"H3 the whitelist lost {spaced!r}: {wl3}", hcase, cls="whitelist entry damaged")
                else:
                    # H4: the same pair through `db create` (its whitelist test is a separate piece of code)
                    acc.count("scenarioH.create_runs")
                    r4 = db.cli(root, "db", "create")
                    d4h = db.dump_index(root)
                    wl4 = _whitelist(root)
                    if r4.rc == 0:
                        acc.violation(f"H4 `db create` accepted the broken, non-whitelisted page {frag!r} next to the whitelisted {spaced!r} (whitelist now {wl4}; page rows {[p_ for p_ in d4h.pages if p_['path'] == frag]})", hcase, cls="db create accepts a non-whitelisted broken page")
                    elif frag in wl4:
                        acc.violation(f"H4 refused `db create` added {frag!r} to the whitelist: {wl4}", hcase, cls="refused page added to the whitelist")
                acc.sig(("H", r3.rc != 0))
            for extra in (spaced, frag):
                if (root / extra).exists():
                    (root / extra).unlink()
        acc.sample({"victim": victim, "broken_kind": kind, "bad_text": bad_text[:200]}, cap=2)
    shutil.rmtree(base, ignore_errors=True)
    acc.merge_counts(harness.COUNTERS.take())
    return acc.result()


def replay(case: dict) -> dict:
    return run_unit({"seed": case["seed"], "idx": case["idx"]})

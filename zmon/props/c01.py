"""C01 — compiling a page yields exactly the notes written in it.

Recorder around the real ``walk_zorg_page`` + injected parser/lexer listeners
(a page is judged only if the real parser reported zero errors) +
sys.monitoring entry counters on the anchored listener methods; oracle =
field-by-field comparison with the abstract page the text was rendered from.
"""

from __future__ import annotations

import datetime as dt
import glob
import os
import re

from zmon import REPO, harness
from zmon.gen import page as pg
from zmon.mon.clock import frozen
from zmon.ref import pagecheck as pc
from zmon.res import Acc, rng_for

ID = "C01"
LEVEL = "exploration"
TODAY = dt.date(2031, 3, 14)
RULE = (
    "seeded random abstract pages (0-4 levels of H1-H4 sections, 0-3 blocks per section, 1-6 entries per block, every "
    "item kind, +/- priority, YYMMDD, 2- and 3-character ZID, YYYY-MM-DD, 0-5 continuation lines with L1-L3 bullets and "
    "bullet properties, in-block comments, multi-line headers, blank-line runs, prefix look-alike words at every body "
    "position >= 2) rendered to text per ZorgFile.g4, compiled by the real walk_zorg_page and compared field by field; "
    "plus the repository's example pages as anchors. distinct = distinct per-page signatures (multiset of item feature "
    "tuples (kind, explicit priority?, YYMMDD?, ZID length, long date?, #continuation lines, collision-word classes) + "
    "section-shape string); non-trivial = page has >= 1 item."
)
ASSUMPTIONS = [
    "a page counts as syntactically valid iff the real ANTLR parser reports zero syntax errors (recorded by the injected listener)",
    "ASCII pages only; six-digit first words are generated only where they mean a modification date",
]
REQUIRED_COUNTERS = ["enter._add_note", "enter.enterId", "enter.exitBase_todo", "enter.enterTodo_prefix", "enter.enterPriority", "enter.enterDate", "listener.prog_calls"]
MIN_JUDGED = {"quick": 1500, "thorough": 40000}
FINDING_IDFREE = "C01-idfree-prefix"


def setup_worker() -> None:
    from zorg.service.compiler._file_compiler import ZorgFileCompiler as Z

    for n in ("_add_note", "enterId", "exitBase_todo", "enterTodo_prefix", "enterPriority", "enterDate", "exitBase_note"):
        harness.COUNTERS.watch_attr(Z, n)


def plan(tier: str, seed: int) -> list[dict]:
    n = 2400 if tier == "quick" else 60000
    per = 50 if tier == "quick" else 500
    units = [{"kind": "random", "start": s, "n": per, "seed": seed} for s in range(0, n, per)]
    units.append({"kind": "anchors"})
    return units


def _signature(page: pg.Page, exp) -> str:
    feats = []
    for _b, it in pg.iter_items(page):
        forms = sorted({w.form for w in it.all_words() if w.form in ("collision", "symbol", "quoted")})
        feats.append((it.kind, it.priority is not None, it.mod is not None, len(it.zid) if it.zid else 0, it.ldate is not None, len(it.cont), tuple(forms)))
    shape = "".join(str(s.level) for s in pg.iter_sections(page))
    return repr((sorted(feats), shape))


def gen_case(seed: int, idx: int):
    rng = rng_for(ID, seed, idx)
    opts = pg.GenOpts(allow_idfree_trigger=(idx % 2 == 1))
    page = pg.PageGen(rng, opts).page()
    text, exp = pg.render(page)
    return page, text, exp


def judge(acc: Acc, page, text: str, exp, case: dict) -> None:
    acc.evaluations += 1
    with_items = {e.uid: it for _b, it in pg.iter_items(page) for e in [it]} if page is not None else {}
    harness.prime(acc.evaluations)  # another page compiled first, in the same process: must not matter
    c = harness.compile_text(text)
    acc.count("listener.prog_calls", 1)
    if c.exc is not None:
        # totality is C08's property; here a crash on a valid page means no notes at all
        acc.judged += 1
        acc.violation(f"walk_zorg_page raised {type(c.exc).__name__}: {c.exc}", case, cls=f"compilation raised {type(c.exc).__name__}")
        return
    if c.parser_errors:
        acc.generator_invalid += 1
        acc.sample({"generator_invalid": c.parser_errors[:2], "text": text[:400]}, cap=4)
        return
    acc.judged += 1
    notes = c.page.notes
    if c.page.has_errors:
        acc.violation("page flagged has_errors although the parser reported none", case, cls="valid page flagged has_errors")
    diffs = pc.compare_c01(notes, exp, TODAY)
    for cls, msg in diffs:
        finding = None
        if cls in ("modify date differs", "zid differs", "create date differs", "body differs") and page is not None:
            m = re.search(r"note (\d+)", msg)
            if m:
                e = exp[int(m.group(1))]
                it = with_items.get(e.uid)
                if it is not None and pg.idfree_trigger(it) and cls != "body differs":
                    finding = FINDING_IDFREE
        acc.violation(msg, case, cls=cls, finding=finding)
    if exp:
        acc.sig(_signature(page, exp) if page is not None else text[:200])
    if not diffs:
        acc.sample({"text": text[:700], "compiled": [(pc.note_kind(n), n.todo_payload.priority if n.todo_payload else None, n.zid, n.line_no, n.body[:60]) for n in notes[:6]]})


def run_unit(unit: dict) -> dict:
    acc = Acc()
    with frozen(TODAY):
        if unit["kind"] == "random":
            for idx in range(unit["start"], unit["start"] + unit["n"]):
                page, text, exp = gen_case(unit["seed"], idx)
                judge(acc, page, text, exp, {"text": text, "seed": unit["seed"], "idx": idx})
        else:
            _anchors(acc)
    acc.merge_counts(harness.COUNTERS.take())
    return acc.result()


_ITEM_START = re.compile(r"^[-ox~<>] ")


def _anchors(acc: Acc) -> None:
    """The repository's own example pages must be accepted and yield one note per item line."""
    files = sorted(glob.glob(os.path.join(REPO, "examples", "zorg_file", "*.zo"))) + [os.path.join(REPO, "tests", "data", "links.zo")]
    for f in files:
        if not os.path.exists(f):
            continue
        text = open(f).read()
        acc.evaluations += 1
        c = harness.compile_text(text)
        acc.count("listener.prog_calls", 1)
        case = {"text": text, "anchor": os.path.basename(f)}
        if c.exc is not None or c.parser_errors:
            acc.judged += 1
            acc.violation(f"example page {os.path.basename(f)} not accepted: exc={c.exc} errors={c.parser_errors[:2]}", case, cls="example page rejected")
            continue
        acc.judged += 1
        starts = [i + 1 for i, l in enumerate(text.split("\n")) if _ITEM_START.match(l)]
        got = [n.line_no for n in c.page.notes]
        if got != starts:
            acc.violation(f"example page {os.path.basename(f)}: note lines {got} != item lines {starts}", case, cls="example page: notes != item lines")
        acc.sig(("anchor", os.path.basename(f), len(starts)))


def replay(case: dict) -> dict:
    acc = Acc()
    with frozen(TODAY):
        if "idx" in case:
            page, text, exp = gen_case(case["seed"], case["idx"])
            if text == case["text"]:
                judge(acc, page, text, exp, case)
            else:
                acc.inconclusive.append("generator changed since this replay was recorded; text replayed without expectations")
        elif "anchor" in case:
            _anchors(acc)
    acc.merge_counts(harness.COUNTERS.take())
    return acc.result()

"""C05 — after `db create` index and files agree; files change only to gain ZIDs.

Monitors: audit-hook effect tracer (which files were written), byte snapshots,
raw-sqlite dump of the index at the quiescent point after each command,
icontract post-condition on the real ``_update_zo_file``; oracle: line-diff
model of the write-back + three-way comparison (recompiled files / SQL rows /
repo.get_notes_by_query(None)) + fixpoint of a second create and a reindex.
"""

from __future__ import annotations

import datetime as dt
import re
import shutil
from pathlib import Path

from zmon import db, harness
from zmon.gen import page as pg
from zmon.gen import zdir as zd
from zmon.mon import contracts
from zmon.mon.clock import frozen
from zmon.mon.effects import TRACER
from zmon.res import Acc, rng_for

ID = "C05"
LEVEL = "exploration"
TODAY = dt.date(2031, 3, 14)
RULE = (
    "seeded random directories (1-6 pages in 0-2 sub-directories, confusable page names, cross links, ID/RID owners, any "
    "mix of items with/without ZIDs, long create dates, multi-line items, sections with dates, irregular spacing after the "
    "prefix) -> real `db create` -> line-diff model + 3-way comparison -> second `db create` and `db reindex` must be "
    "fixpoints. distinct = distinct directory signatures (#pages, #subdirs, multiset of per-note (had ZID?, long date?, "
    "irregular gap?, multi-line?, in section?)); non-trivial = >= 1 note without ZID."
)
ASSUMPTIONS = [
    "the files are recompiled with the real walk_zorg_page (its fidelity is C01's property)",
    "not judged: items that write a YYMMDD modification date but no ZID (zorg itself never produces them); create dates outside 2000-2099",
]
REQUIRED_COUNTERS = ["enter._update_zo_file", "enter._add_zid_to_line", "enter.create_database", "enter.reindex_database", "contract_evals._update_zo_file"]
MIN_JUDGED = {"quick": 40, "thorough": 600}
FINDING_CRLF = "C05-crlf-pages-are-rewritten-with-lf"
ZID_RE = re.compile(r"^(\d{6})#[0-9A-HJ-NPRT-Za-fhkmnor-xz]{2,3}$")

_STATE: dict = {"contract_violations": []}


def setup_worker() -> None:
    import zorg.service.handlers as h

    harness.COUNTERS.watch_attr(h, "_add_zid_to_line")
    harness.COUNTERS.watch_attr(h, "create_database")
    harness.COUNTERS.watch_attr(h, "reindex_database")
    orig = getattr(h, "_update_zo_file", None)
    harness.COUNTERS.watch_attr(h, "_update_zo_file")
    if orig is None:
        contracts.bump("missing.contract_evals._update_zo_file")
    if contracts.AVAILABLE and orig is not None:
        ic = contracts.icontract

        def snap(zo_path):
            return zo_path.read_text().split("\n")

        def only_listed_first_lines_change(zo_path, notes_to_update, OLD):
            contracts.bump("contract_evals._update_zo_file")
            new = zo_path.read_text().split("\n")
            old = OLD.lines
            if len(new) != len(old):
                _STATE["contract_violations"].append(f"{zo_path.name}: line count {len(old)} -> {len(new)}")
                return True
            allowed = {n.line_no - 1 for n in notes_to_update}
            bad = [i for i, (a, b) in enumerate(zip(old, new)) if a != b and i not in allowed]
            if bad:
                _STATE["contract_violations"].append(f"{zo_path.name}: lines {bad[:5]} changed but are not first lines of updated notes")
            return True  # record, never abort what it observes

        h._update_zo_file = ic.snapshot(snap, name="lines")(ic.ensure(only_listed_first_lines_change, error=contracts.ContractBroken)(orig))
    TRACER.install()


def plan(tier: str, seed: int) -> list[dict]:
    n = 64 if tier == "quick" else 900
    per = 4 if tier == "quick" else 15
    return [{"kind": "dirs", "start": s, "n": per, "seed": seed} for s in range(0, n, per)]


def gen_case(seed: int, idx: int) -> zd.ZDir:
    rng = rng_for(ID, seed, idx)
    opts = pg.GenOpts(max_items=3, max_blocks=2, allow_mod_without_zid=False, irregular_gap=True, p_zid=rng.choice([0.0, 0.3, 0.5, 0.8, 1.0]), p_ldate=0.4,
                      p_foreign=0.08, foreign_pool=pg.FOREIGN_WORDS + pg.EXOTIC_SEPARATOR_WORDS)
    z = zd.gen_zdir(rng, opts)
    # items whose FIRST LINE is nothing but their own YYYY-MM-DD create date (the text follows on continuation lines)
    for _rel, p in z.pages.items():
        for _b, it in pg.iter_items(p):
            if it.zid is None and it.ldate is not None and it.cont and rng.random() < 0.35:
                it.words = []
    if idx % 16 == 9:
        # one page with 45 notes lacking a ZID, all created 'today': the 32nd+ allocation of a date crosses the
        # gap between 'Y' and 'a' of the suffix alphabet
        many = pg.Page(title_words=[pg.W("Page"), pg.W("many")])
        many.blocks = [pg.Block([pg.Item(kind=rng.choice("-ox"), words=[pg.W(f"n{i}"), pg.W("filler")], uid=f"many{i}") for i in range(45)])]
        z.pages["many.zo"] = many
    return z


def read_files(root: Path) -> dict:
    out = {}
    for f in sorted(root.rglob("*")):
        if f.is_file() and ".zorg" not in f.parts:
            out[str(f.relative_to(root))] = f.read_bytes()
    return out


def recompile(root: Path, rels) -> tuple[list[dict], list[str]]:
    recs, problems = [], []
    for rel in sorted(rels):
        c = harness.compile_path(root, Path(rel))
        if c.exc is not None or c.parser_errors:
            problems.append(f"{rel}: not compilable after the command: exc={c.exc} errors={c.parser_errors[:2]}")
            continue
        recs.extend(db.page_recs(c.page, root))
    return recs, problems


def repo_recs(root: Path) -> list[dict]:
    from zorg.storage.sql import SQLSession

    db.fresh_process_state()
    try:
        with SQLSession(root, db.db_url(root)) as s:
            notes = s.repo.get_notes_by_query(None)
            return [db.note_to_rec(n, root) for n in notes]
    finally:
        db.fresh_process_state()


def multiset_diff(a: list[dict], b: list[dict], keys) -> tuple[list, list]:
    """Multiset difference of canonical records (duplicates count)."""
    from collections import Counter

    ca = Counter(db.canon(r, keys) for r in a)
    cb = Counter(db.canon(r, keys) for r in b)
    return sorted((ca - cb).elements()), sorted((cb - ca).elements())


def describe_diff(only_a, only_b, la: str, lb: str) -> str:
    da, dbb = [dict(x) for x in only_a[:2]], [dict(x) for x in only_b[:2]]
    fields = set()
    for x in da:
        for y in dbb:
            if x.get("zid") == y.get("zid"):
                fields |= {k for k in x if x[k] != y.get(k)}
    return f"{len(only_a)} records only in {la}, {len(only_b)} only in {lb}; differing fields of first pair: {sorted(fields)}; {la}: {da[:1]} {lb}: {dbb[:1]}"


def check_line_model(acc: Acc, rel: str, old: bytes, new: bytes, exp, case) -> set:
    """Returns the set of new ZIDs found; reports deviations from the line-diff model."""
    new_zids = set()
    if b"\r\n" in old and new != old and b"\r" not in new:
        # CRLF page rewritten through text-mode IO: every line end changes (known finding); the rest of
        # the model is judged against the page with normalised line ends
        acc.violation(f"{rel}: CRLF line ends were converted to LF when the page was rewritten", case, cls="file: CRLF line ends converted to LF by the write-back", finding=FINDING_CRLF)
        old = old.replace(b"\r\n", b"\n")
    ol, nl = old.decode().split("\n"), new.decode().split("\n")
    if len(ol) != len(nl):
        acc.violation(f"{rel}: line count changed {len(ol)} -> {len(nl)}", case, cls="file: line count changed")
        return new_zids
    lacking = {e.line_no - 1: e for e in exp if e.zid is None}
    for i, (a, b) in enumerate(zip(ol, nl)):
        if i not in lacking:
            if a != b:
                acc.violation(f"{rel}:{i + 1}: line changed although it is not the first line of a note lacking a ZID: {a!r} -> {b!r}", case, cls="file: unrelated line changed")
            continue
        e = lacking[i]
        prefix = e.kind + (f" {e.priority}" if (e.priority and _explicit_priority(a, e)) else "") + " "
        if not a.startswith(prefix) or not b.startswith(prefix):
            acc.violation(f"{rel}:{i + 1}: prefix not preserved: {a!r} -> {b!r}", case, cls="file: prefix of a new note not preserved")
            continue
        rest_old = a[len(prefix) :].lstrip(" ")
        if e.own_create is not None and rest_old.startswith(e.own_create.isoformat()):
            rest_old = rest_old[10:].lstrip(" ")
        parts = b[len(prefix) :].split(" ", 1)
        zid = parts[0]
        rest_new = parts[1] if len(parts) > 1 else ""
        m = ZID_RE.match(zid)
        want_day = (e.create or _STATE.get("day", TODAY)).strftime("%y%m%d")
        if not m:
            acc.violation(f"{rel}:{i + 1}: no well-formed ZID after the prefix: {a!r} -> {b!r}", case, cls="file: new note did not gain a ZID after its prefix")
            continue
        if m.group(1) != want_day:
            acc.violation(f"{rel}:{i + 1}: new ZID {zid} does not carry the note's creation date {want_day}", case, cls="file: new ZID carries the wrong date")
        if rest_new != rest_old:
            acc.violation(f"{rel}:{i + 1}: text after the new ZID differs: {a!r} -> {b!r} (expected rest {rest_old!r})", case, cls="file: text after the new ZID differs")
        new_zids.add(zid)
    return new_zids


def _explicit_priority(line: str, e) -> bool:
    return bool(re.match(r"^[ox~<>] P\d ", line))


def run_case(acc: Acc, seed: int, idx: int) -> None:
    z = gen_case(seed, idx)
    case = {"seed": seed, "idx": idx}
    acc.evaluations += 1
    root = harness.notes_root("c05", idx)  # (some directories are reached through a symlink / a '..' component)
    z.write(root)
    crlf = idx % 8 == 5
    if crlf:
        # the same directory with DOS line ends (the grammar's NL admits '\r\n')
        for rel in z.pages:
            f = root / rel
            f.write_bytes(f.read_bytes().replace(b"\n", b"\r\n"))
        acc.count("crlf_directories")
    expected = z.expected()
    # generator self-check: every page must be accepted by the real parser
    for rel in z.pages:
        c = harness.compile_path(root, Path(rel))
        if c.exc is not None or c.parser_errors:
            acc.generator_invalid += 1
            return
    before = read_files(root)
    case["files"] = {k: v.decode() for k, v in before.items()}
    # "today" (the date new ZIDs of undated notes carry) varies: ordinary day, leap days, both sides of the %y pivot
    day = [TODAY, dt.date(2028, 2, 29), TODAY, dt.date(2069, 1, 1), TODAY, dt.date(2032, 2, 29), dt.date(2068, 12, 31)][idx % 7]
    _STATE["day"] = day
    case["day"] = day.isoformat()
    with frozen(day):
        _STATE["contract_violations"].clear()
        TRACER.start(root)
        r = db.cli(root, "db", "create")
        ev = TRACER.stop()
        acc.judged += 1
        if r.rc != 0:
            acc.violation(f"`db create` failed on an error-free directory: rc={r.rc} {r.err[-300:]} {r.exc}", case, cls="db create fails on error-free directory")
            return
        after = read_files(root)
        n_lacking = 0
        all_new: list = []
        for rel, exp in expected.items():
            n_lacking += sum(1 for e in exp if e.zid is None)
            nz = check_line_model(acc, rel, before[rel], after[rel], exp, case)
            all_new.extend(nz)
        existing = {e.zid for exp in expected.values() for e in exp if e.zid}
        if len(set(all_new)) != len(all_new) or set(all_new) & existing:
            acc.violation(f"allocated ZIDs are not unique: {sorted(all_new)}", case, cls="duplicate ZID allocated")
        written = {e[1] for e in ev if e[0] == "write" and not e[1].startswith(".zorg")}
        should = {rel for rel, exp in expected.items() if any(e.zid is None for e in exp)}
        if written - should:
            acc.violation(f"files written although they had no note lacking a ZID: {sorted(written - should)}", case, cls="file written without need")
        for cv in _STATE["contract_violations"]:
            acc.violation(f"_update_zo_file contract: {cv}", case, cls="_update_zo_file changed other lines")
        # three-way comparison
        recs_files, problems = recompile(root, z.pages)
        for p in problems:
            acc.violation(p, case, cls="file not compilable after db create")
        dump = db.dump_index(root)
        for p in dump.problems:
            acc.violation(f"index invariant: {p}", case, cls="index structural invariant broken")
        if any(r_["zid"] is None for r_ in recs_files):
            acc.violation("a note in a file still has no ZID after db create", case, cls="note without ZID after db create")
        zs = [r_["zid"] for r_ in dump.notes]
        if len(zs) != len(set(zs)):
            acc.violation("duplicate ZID rows in the index", case, cls="duplicate ZID in index")
        oa, ob = multiset_diff(recs_files, dump.notes, db.NOTE_KEYS)
        if crlf and (oa or ob):
            # the index was filled BEFORE the write-back turned the page's CRLF into LF: bodies of multi-line
            # notes keep their '\r' in the index only (same known finding); judged modulo '\r'
            strip = lambda rs: [dict(r_, body=r_["body"].replace("\r", "")) for r_ in rs]
            oa2, ob2 = multiset_diff(strip(recs_files), strip(dump.notes), db.NOTE_KEYS)
            if not (oa2 or ob2):
                acc.violation("files vs SQL rows differ only by the CR characters the rewritten page lost", case, cls="recompiled files != indexed rows (CR of a rewritten CRLF page)", finding=FINDING_CRLF)
            oa, ob = oa2, ob2
        if oa or ob:
            acc.violation("files vs SQL rows: " + describe_diff(oa, ob, "files", "index"), case, cls="recompiled files != indexed rows (" + _fields(oa, ob) + ")")
        keys_c = tuple(k for k in db.NOTE_KEYS if k not in ("section", "block_ord"))
        try:
            rr = repo_recs(root)
        except Exception as e:
            acc.violation(f"repo.get_notes_by_query(None) raised {type(e).__name__}: {e}", case, cls="repository API cannot read the index it just built")
            rr = None
        oa, ob = multiset_diff(rr, dump.notes, keys_c) if rr is not None else ([], [])
        if oa or ob:
            acc.violation("repo.get_notes_by_query(None) vs SQL rows: " + describe_diff(oa, ob, "repo", "index"), case, cls="repo notes != indexed rows (" + _fields(oa, ob) + ")")
        # fixpoints
        some = sorted(z.pages)
        explicit = ("db", "reindex") + tuple(str(root / r_) for r_ in some[: max(1, len(some) // 2)])
        for cmd in (("db", "reindex"), explicit, ("db", "create"), explicit, ("db", "reindex")):
            TRACER.start(root)
            r2 = db.cli(root, *cmd)
            ev2 = TRACER.stop()
            if r2.rc != 0:
                acc.violation(f"`{' '.join(cmd)}` after create failed rc={r2.rc} {r2.err[-200:]}", case, cls=f"second {' '.join(cmd[:2])}{' <paths>' if len(cmd) > 2 else ''} fails")
                break
            again = read_files(root)
            if again != after:
                ch = [k for k in after if again.get(k) != after[k]]
                acc.violation(f"`{' '.join(cmd)}` after create changed files {ch}", case, cls=f"second {' '.join(cmd[:2])}{' <paths>' if len(cmd) > 2 else ''} changes files")
                break
            d2 = db.dump_index(root)
            oa, ob = multiset_diff(d2.notes, dump.notes, db.NOTE_KEYS)
            if crlf and (oa or ob):
                strip = lambda rs: [dict(r_, body=r_["body"].replace("\r", "")) for r_ in rs]
                oa2, ob2 = multiset_diff(strip(d2.notes), strip(dump.notes), db.NOTE_KEYS)
                if not (oa2 or ob2):
                    acc.violation(f"`{' '.join(cmd)}` after create changed the index only by dropping the CR characters of a rewritten CRLF page", case, cls="later run drops the CR of a rewritten CRLF page from the index", finding=FINDING_CRLF)
                oa, ob = oa2, ob2
            if oa or ob or d2.problems:
                acc.violation(f"`{' '.join(cmd)}` after create changed the index: " + describe_diff(oa, ob, "after", "before") + str(d2.problems[:2]), case, cls=f"second {' '.join(cmd[:2])}{' <paths>' if len(cmd) > 2 else ''} changes the index")
                break
            w2 = {e[1] for e in ev2 if e[0] == "write" and not e[1].startswith(".zorg")}
            if w2:
                acc.violation(f"`{' '.join(cmd)}` after create wrote {sorted(w2)}", case, cls=f"second {' '.join(cmd[:2])}{' <paths>' if len(cmd) > 2 else ''} writes pages")
                break
    feats = []
    for rel, p in z.pages.items():
        secs = {id(b): True for s in pg.iter_sections(p) for b in s.blocks}
        for b, it in pg.iter_items(p):
            feats.append((it.zid is not None, it.ldate is not None, it.gap != " ", bool(it.cont), id(b) in secs))
    if n_lacking:
        acc.sig((len(z.pages), len({str(Path(r_).parent) for r_ in z.pages}), tuple(sorted(feats))))
    acc.sample({"pages": sorted(z.pages), "notes": len(dump.notes), "new_zids": sorted(all_new)[:6], "effects": [list(e) for e in ev][:14]}, cap=2)
    shutil.rmtree(root.parent, ignore_errors=True)


def _fields(oa, ob) -> str:
    da, dbb = [dict(x) for x in oa], [dict(x) for x in ob]
    fields = set()
    for x in da:
        for y in dbb:
            if x.get("zid") == y.get("zid") and x.get("zid") is not None:
                fields |= {k for k in x if x[k] != y.get(k)}
    return ",".join(sorted(fields)) or "unmatched records"


def run_unit(unit: dict) -> dict:
    acc = Acc()
    for idx in range(unit["start"], unit["start"] + unit["n"]):
        run_case(acc, unit["seed"], idx)
    acc.merge_counts(harness.COUNTERS.take())
    acc.merge_counts(contracts.take_counts())
    return acc.result()


def replay(case: dict) -> dict:
    acc = Acc()
    run_case(acc, case["seed"], case["idx"])
    acc.merge_counts(harness.COUNTERS.take())
    acc.merge_counts(contracts.take_counts())
    return acc.result()

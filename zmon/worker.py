"""Worker process: executes a shard of work units for one property.

Results are appended one JSON line per unit, so a crash loses at most the unit
in flight (which the orchestrator then reports as inconclusive).
"""

from __future__ import annotations

import importlib
import json
import logging
import os
import sys
import traceback
import warnings


def prepare(mod) -> None:
    """Process-wide preparation shared by workers and replays."""
    warnings.filterwarnings("ignore")
    logging.disable(logging.CRITICAL)
    os.environ.setdefault("TQDM_DISABLE", "1")
    try:
        from logrus import Log, init_logging

        init_logging(logs=[Log(file="stderr", format="nocolor", level="CRITICAL")])
    except Exception:  # pragma: no cover - logging is cosmetic only
        pass
    if hasattr(mod, "setup_worker"):
        mod.setup_worker()


def main(argv: list[str]) -> int:
    pid, units_file, out_file = argv
    mod = importlib.import_module(f"zmon.props.{pid.lower()}")
    prepare(mod)
    with open(units_file) as f:
        units = json.load(f)
    with open(out_file, "a") as out:
        for unit in units:
            try:
                res = mod.run_unit(unit)
            except Exception as e:
                tb = traceback.extract_tb(e.__traceback__)
                last = tb[-1].filename if tb else ""
                if "/zorg/" in last and "/zmon/" not in last:
                    # the exception was raised by the repository's own code at one of the monitor's
                    # observation points and escaped: that is an observation, not a harness failure
                    site = f"{tb[-1].name}"
                    res = {
                        "evaluations": 1,
                        "judged": 1,
                        "violations": [
                            {
                                "summary": f"the repository raised {type(e).__name__}: {str(e)[:300]} in {site} while the monitor was observing unit {unit}: {traceback.format_exc()[-900:]}",
                                "class": f"repository raised {type(e).__name__} in {site} at an observation point",
                                "finding": None,
                                "detail": None,
                                "case": {"unit": unit},
                            }
                        ],
                    }
                else:  # harness failure, never a verdict
                    res = {
                        "evaluations": 0,
                        "inconclusive": [f"harness exception in unit {unit}: {traceback.format_exc()[-1200:]}"],
                    }
            out.write(json.dumps(res, default=str) + "\n")
            out.flush()
    return 0


if __name__ == "__main__":
    sys.exit(main(sys.argv[1:]))

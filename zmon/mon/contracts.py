"""Runtime contracts (icontract) attached to the repository's real functions
from outside, with evaluation counters (zero evaluations => inconclusive)."""

from __future__ import annotations

import zmon  # noqa: F401  (puts .deps on sys.path)

try:
    import icontract

    AVAILABLE = True
except Exception:  # pragma: no cover
    icontract = None
    AVAILABLE = False

COUNTS: dict[str, int] = {}


class ContractBroken(Exception):
    """Raised by a contract attached by the harness (never by the repository)."""


def bump(name: str) -> None:
    COUNTS[name] = COUNTS.get(name, 0) + 1


def take_counts() -> dict[str, int]:
    out = dict(COUNTS)
    COUNTS.clear()
    return out

"""External-effect tracer built on the interpreter's audit hook and SQLAlchemy
engine events — no repository code is touched.

Effects recorded (only for paths under the traced root):
  ("write", relpath)   open() with a writing flag        ("unlink", relpath)
  ("rename", a, b)     os.rename / os.replace            ("mkdir", relpath)
  ("truncate", relpath)                                  ("commit", db)   SQLAlchemy commit
A failpoint can be armed: ``arm(k)`` makes the k-th effect (1-based) call
``os._exit(86)`` *before* it happens (kill semantics: no finally, no rollback,
no flush).  ``arm(k, torn=f)`` lets the k-th effect happen when it is a file
write, but truncated to fraction f of its data, and then exits.
"""

from __future__ import annotations

import io
import os
import sys

_W = os.O_WRONLY | os.O_RDWR | os.O_CREAT | os.O_TRUNC | os.O_APPEND


class Tracer:
    def __init__(self) -> None:
        self.root = None
        self.events: list = []
        self.on = False
        self.crash_at = None
        self.torn = None
        self.installed = False
        self.ignore_suffixes = ("-journal", "-wal", "-shm")
        self._torn_target = None
        self.n_effects = 0  # crash-relevant effects seen so far (mkdir excluded)

    # -- lifecycle
    def install(self) -> None:
        if self.installed:
            return
        sys.addaudithook(self._hook)
        try:
            from sqlalchemy import event
            from sqlalchemy.engine import Engine

            event.listen(Engine, "commit", self._on_commit)
        except Exception:  # pragma: no cover
            pass
        self.installed = True

    def start(self, root) -> None:
        self.install()
        self.root = os.path.realpath(str(root)) + os.sep
        self.events = []
        self.n_effects = 0
        self.on = True

    def stop(self) -> list:
        self.on = False
        ev = self.events
        self.events = []
        return ev

    def arm(self, k: int, torn=None) -> None:
        self.crash_at = k
        self.torn = torn

    # -- internals
    def _rel(self, p):
        if isinstance(p, int) or p is None:
            return None
        try:
            p = os.fspath(p)
        except TypeError:
            return None
        if isinstance(p, bytes):
            p = p.decode("utf-8", "replace")
        if not os.path.isabs(p):
            p = os.path.join(os.getcwd(), p)
        p = os.path.normpath(p)
        rp = p
        if not rp.startswith(self.root):
            rp = os.path.realpath(p)
            if not rp.startswith(self.root):
                return None
        rel = rp[len(self.root) :]
        if rel.endswith(self.ignore_suffixes):
            return None
        return rel

    def _emit(self, ev) -> None:
        if self._torn_target is not None:
            # the armed effect was not a data write (e.g. Path.touch): nothing to tear
            os._exit(88)
        self.events.append(ev)
        self.n_effects += 1
        if self.crash_at is not None and self.n_effects == self.crash_at:
            if self.torn is not None and ev[0] == "write":
                self._torn_target = os.path.join(self.root, ev[1])
                return  # let the write start; _torn_write finishes the job
            os._exit(86)

    def _hook(self, name, args):
        if not self.on:
            return
        try:
            if name == "open":
                path, mode, flags = args
                if flags is not None and flags & _W or (flags is None and mode and any(c in mode for c in "wax+")):
                    rel = self._rel(path)
                    if rel is not None:
                        self._emit(("write", rel))
            elif name == "os.remove":
                rel = self._rel(args[0])
                if rel is not None:
                    self._emit(("unlink", rel))
            elif name == "os.rename":
                a, b = self._rel(args[0]), self._rel(args[1])
                if a is not None or b is not None:
                    self._emit(("rename", a, b))
            elif name == "os.mkdir":
                rel = self._rel(args[0])
                if rel is not None:
                    self.events.append(("mkdir", rel))  # recorded, never a crash point of its own
            elif name == "os.truncate":
                rel = self._rel(args[0])
                if rel is not None:
                    self._emit(("truncate", rel))
        except Exception:
            if name in ("open", "os.remove", "os.rename"):
                raise

    def _on_commit(self, conn) -> None:
        if not self.on:
            return
        self._emit(("commit", "zorg.db"))


TRACER = Tracer()


def install_torn_writer() -> None:
    """Patches io.open-level writes so that an armed torn write stores only a
    prefix of the data, flushes and kills the process (used by C13 thorough)."""
    import pathlib

    orig_write_text = pathlib.Path.write_text
    orig_open = pathlib.Path.open

    def _finish(path, data: str) -> None:
        frac = TRACER.torn or 0.5
        cut = int(len(data) * frac)
        fd = os.open(str(path), os.O_WRONLY | os.O_TRUNC)
        os.write(fd, data[:cut].encode())
        os.close(fd)
        os._exit(87)

    def write_text(self, data, *a, **k):
        if TRACER._torn_target is not None:
            os._exit(88)  # the armed effect was not a data write (e.g. Path.touch): nothing to tear
        # let the audit hook see the open first
        with orig_open(self, "w") as f:
            if TRACER._torn_target is not None and os.path.realpath(str(self)) == os.path.realpath(TRACER._torn_target):
                f.close()
                _finish(self, data)
            f.write(data)
        return len(data)

    class _TornFile(io.StringIO):
        def __init__(self, path):
            super().__init__()
            self._path = path

        def __exit__(self, *a):
            _finish(self._path, self.getvalue())

    def popen(self, mode="r", *a, **k):
        if TRACER._torn_target is not None:
            os._exit(88)
        f = orig_open(self, mode, *a, **k)
        if "w" in mode and TRACER._torn_target is not None and os.path.realpath(str(self)) == os.path.realpath(TRACER._torn_target):
            f.close()
            return _TornFile(self)
        return f

    pathlib.Path.write_text = write_text
    pathlib.Path.open = popen

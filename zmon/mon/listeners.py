"""Injected ANTLR error listeners.

The harness substitutes thin subclasses at the module attributes that
``zorg.service.compiler._api`` looks up at call time, so that the monitor has
*its own* record of what the parser/lexer reported, independent of the
repository's ``ErrorManager``.  (``walk_zorg_page(verbose=False)`` removes all
parser listeners after construction, hence the registration inside ``prog()``.)
"""

from __future__ import annotations

from antlr4.error.ErrorListener import ErrorListener


class Rec(ErrorListener):
    def __init__(self) -> None:
        super().__init__()
        self.parser_errors: list[str] = []
        self.lexer_errors: list[str] = []
        self.progs = 0
        self.tree = None

    def reset(self) -> None:
        self.parser_errors = []
        self.lexer_errors = []


class _ParserSide(ErrorListener):
    def __init__(self, rec: Rec) -> None:
        super().__init__()
        self.rec = rec

    def syntaxError(self, recognizer, offendingSymbol, line, column, msg, e):
        self.rec.parser_errors.append(f"{line}:{column} {msg}")


class _LexerSide(ErrorListener):
    def __init__(self, rec: Rec) -> None:
        super().__init__()
        self.rec = rec

    def syntaxError(self, recognizer, offendingSymbol, line, column, msg, e):
        self.rec.lexer_errors.append(f"{line}:{column} {msg}")


FILE = Rec()
QUERY = Rec()
_installed = False


def install() -> None:
    global _installed
    if _installed:
        return
    import zorg.service.compiler._api as api

    class RecFileParser(api.ZorgFileParser):
        def prog(self):
            FILE.progs += 1
            self.addErrorListener(_ParserSide(FILE))
            FILE.tree = None
            FILE.tree = super().prog()
            return FILE.tree

    class RecFileLexer(api.ZorgFileLexer):
        def __init__(self, *a, **k):
            super().__init__(*a, **k)
            self.removeErrorListeners()  # console noise only
            self.addErrorListener(_LexerSide(FILE))

    class RecQueryParser(api.ZorgQueryParser):
        def prog(self):
            QUERY.progs += 1
            self.removeErrorListeners()  # console noise only
            self.addErrorListener(_ParserSide(QUERY))
            return super().prog()

    class RecQueryLexer(api.ZorgQueryLexer):
        def __init__(self, *a, **k):
            super().__init__(*a, **k)
            self.removeErrorListeners()
            self.addErrorListener(_LexerSide(QUERY))

    api.ZorgFileParser = RecFileParser
    api.ZorgFileLexer = RecFileLexer
    api.ZorgQueryParser = RecQueryParser
    api.ZorgQueryLexer = RecQueryLexer
    _installed = True

"""Virtual time: freezegun (already used by the repository's own tests)."""

from __future__ import annotations

import contextlib
import datetime as dt

from freezegun import freeze_time


@contextlib.contextmanager
def frozen(day: dt.date, hh: int = 12, mm: int = 0):
    with freeze_time(f"{day.isoformat()}T{hh:02d}:{mm:02d}:00.123456Z"):
        yield

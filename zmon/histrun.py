"""Executes an edit history against the real commands and records, for every
reindex run, the independent before/after observations that C06 and C11 judge."""

from __future__ import annotations

import datetime as dt
import hashlib
import json
import os
import shutil
from pathlib import Path

from zmon import db, harness
from zmon.gen import history as hg
from zmon.gen import page as pg
from zmon.gen import zdir as zd
from zmon.mon.clock import frozen
from zmon.mon.effects import TRACER

DAY0 = dt.date(2031, 3, 14)


def sha(path: Path) -> str:
    return hashlib.sha256(path.read_bytes()).hexdigest()


def rel(root: Path, p: Path) -> str:
    return str(p.relative_to(root))


class Step:
    def __init__(self, kind: str, **kw):
        self.kind = kind
        self.kw = kw

    def to_json(self):
        return {"kind": self.kind, **{k: (str(v) if isinstance(v, (Path, dt.date)) else v) for k, v in self.kw.items()}}


class ReindexObs:
    """Everything observed around one `db reindex` run."""

    def __init__(self):
        self.day = None
        self.paths = None  # explicit paths (relative) or None
        self.hash_before = {}
        self.files_before = {}
        self.rows_before = []
        self.files_after = {}
        self.rows_after = []
        self.rc = None
        self.err = ""
        self.effects = []
        self.compiled_before = {}  # rel -> list of recs (real compiler on the pre-reindex files)
        self.dump_problems = []


def gen_history(rng, n_steps: int, allow: set):
    """Chooses the abstract step kinds; concrete targets are resolved at run time."""
    kinds = []
    weights = {
        "edit_body": 10, "edit_body_middle": 4, "edit_bullet": 6, "change_kind": 5, "change_priority": 5, "add_note": 6, "add_note_zid": 3,
        "delete_note": 4, "retitle_section": 3, "edit_header": 3, "move_note": 4, "add_page": 3, "delete_page": 3, "rename_page": 2,
        "advance_day": 6, "reindex": 12, "reindex_paths": 4, "break_page": 3, "repair_page": 4, "restore_page": 3,
    }
    ks = [k for k in weights if k in allow]
    ws = [weights[k] for k in ks]
    for _ in range(n_steps):
        kinds.append(rng.choices(ks, ws)[0])
    return kinds


ALL_STEPS = {"restore_page", "break_page", "repair_page", "edit_body", "edit_body_middle", "edit_bullet", "change_kind", "change_priority", "add_note", "add_note_zid", "delete_note", "retitle_section", "edit_header", "move_note", "add_page", "delete_page", "rename_page", "advance_day", "reindex", "reindex_paths"}


class Runner:
    def __init__(self, rng, root: Path, opts: pg.GenOpts, allow=None, n_pages=None):
        self.rng = rng
        self.root = root
        self.ctx = hg.Ctx(rng)
        # every history starts on another calendar day (month ends, the 9th/10th/19th/20th, leap days …)
        self.day = rng.choice([DAY0, dt.date(2028, 2, 27), dt.date(2028, 2, 28), dt.date(2028, 2, 29), dt.date(2068, 12, 31), dt.date(2030, 12, 29), dt.date(2031, 3, 8), dt.date(2031, 3, 18), dt.date(2031, 4, 29), DAY0 + dt.timedelta(days=rng.randint(0, 700))])
        self.allow = allow or ALL_STEPS
        self.opts = opts
        self.log: list = []
        self.reindex_obs: list = []
        self.failed = None
        self.n_pages = n_pages
        self.page_counter = 0
        self.vanished: list = []  # (rel, text) of pages deleted / renamed away: may come back unchanged
        self.broken: dict = {}  # rel -> last good text (page currently has a syntax error)
        self.refusals = 0

    # ---------------------------------------------------------------- setup
    def setup(self) -> bool:
        z = zd.gen_zdir(self.rng, self.opts, n_pages=self.n_pages or self.rng.choice([2, 2, 3, 4]))
        z.write(self.root)
        self.initial_files = {r: t for r, t in z.render().items()}
        for r in z.pages:
            c = harness.compile_path(self.root, Path(r))
            if c.exc is not None or c.parser_errors:
                return False
        with frozen(self.day):
            res = db.cli(self.root, "db", "create")
        self.log.append(Step("create", day=self.day, rc=res.rc).to_json())
        if res.rc != 0:
            self.failed = f"initial db create failed rc={res.rc}: {res.err[-300:]}"
            return False
        return True

    # ---------------------------------------------------------------- steps
    def pages(self):
        return hg.zo_files(self.root)

    def good_pages(self):
        return [p for p in self.pages() if rel(self.root, p) not in self.broken]

    def do(self, kind: str) -> None:
        rng = self.rng
        pages = self.good_pages()
        if kind == "break_page":
            cands = [p for p in pages if hg.scan(p.read_text())[1]]
            if not cands or len(self.broken) >= 2:
                return
            p = rng.choice(cands)
            text = p.read_text()
            lines, items = hg.scan(text)
            _s, e = rng.choice(items)
            lines.insert(e, rng.choice(["free text without an item prefix", "oops this line lost its dash", "TODO fix me (no prefix)"]))
            new = "\n".join(lines)
            p.write_text(new)
            c = harness.compile_path(self.root, Path(rel(self.root, p)))
            if c.exc is None and c.parser_errors and c.page.has_errors:
                self.broken[rel(self.root, p)] = text
                self.log.append(Step(kind, page=rel(self.root, p)).to_json())
            else:
                p.write_text(text)
            return
        if kind == "restore_page":
            # a page that was deleted / renamed away comes back under its old name with the very same bytes
            cands = [(r, t) for r, t in self.vanished if not (self.root / r).exists()]
            if not cands:
                return
            r, t = rng.choice(cands)
            zs = {hg.first_line_parts(l)[2] for l in t.split("\n") if hg.ITEM_START.match(l)}
            live = {hg.first_line_parts(l)[2] for p_ in self.pages() for l in p_.read_text().split("\n") if hg.ITEM_START.match(l)}
            if (zs - {None}) & (live - {None}):
                return  # (a renamed page still carries these notes: restoring the old file would duplicate ZIDs)
            (self.root / r).parent.mkdir(parents=True, exist_ok=True)
            (self.root / r).write_text(t)
            self.log.append(Step(kind, page=r).to_json())
            return
        if kind == "repair_page":
            if not self.broken:
                return
            r = rng.choice(sorted(self.broken))
            good = self.broken.pop(r)
            if rng.random() < 0.5:
                good = hg.op_edit_body(good, self.ctx, self.day) or good
            (self.root / r).write_text(good)
            self.log.append(Step(kind, page=r).to_json())
            return
        if kind in hg.PAGE_OPS:
            if not pages:
                return
            p = rng.choice(pages)
            new = hg.PAGE_OPS[kind](p.read_text(), self.ctx, self.day)
            if new is None:
                return
            p.write_text(new)
            self.last_edited = p
            self.log.append(Step(kind, page=rel(self.root, p)).to_json())
        elif kind == "move_note":
            if len(pages) < 2:
                return
            a, b = rng.sample(pages, 2)
            ta, cut = hg.cut_item(a.read_text(), self.ctx)
            if cut is None:
                return
            a.write_text(ta)
            b.write_text(hg.paste_item(b.read_text(), cut, self.ctx))
            self.log.append(Step(kind, src=rel(self.root, a), dst=rel(self.root, b), first_line=cut[0]).to_json())
        elif kind == "add_page":
            self.page_counter += 1
            name = rng.choice(["", "sub/", "newdir/"]) + f"added{self.page_counter}.zo"
            o = pg.GenOpts(**{**self.opts.__dict__})
            page = pg.PageGen(rng, o).page()
            f = self.root / name
            f.parent.mkdir(parents=True, exist_ok=True)
            f.write_text(pg.render(page)[0])
            c = harness.compile_path(self.root, Path(name))
            if c.exc is not None or c.parser_errors:
                f.unlink()
                return
            self.log.append(Step(kind, page=name).to_json())
        elif kind == "delete_page":
            if len(pages) < 2:
                return
            p = rng.choice(pages)
            self.vanished.append((rel(self.root, p), p.read_text()))
            p.unlink()
            self.log.append(Step(kind, page=rel(self.root, p)).to_json())
        elif kind == "rename_page":
            if not pages:
                return
            p = rng.choice(pages)
            self.page_counter += 1
            q = p.with_name(f"renamed{self.page_counter}.zo")
            self.vanished.append((rel(self.root, p), p.read_text()))
            p.rename(q)
            self.log.append(Step(kind, src=rel(self.root, p), dst=rel(self.root, q)).to_json())
        elif kind == "advance_day":
            self.day = self.day + dt.timedelta(days=rng.choice([1, 1, 2, 7, 30]))
            self.log.append(Step(kind, day=self.day).to_json())
        elif kind == "reindex":
            self.reindex(None)
        elif kind == "reindex_last_edited":
            le = getattr(self, "last_edited", None)
            if le is not None and le.exists():
                self.reindex([le])
        elif kind == "reindex_paths":
            allp = self.pages()
            if not allp:
                return
            k = rng.randint(1, min(3, len(allp)))
            self.reindex(rng.sample(allp, k))

    def reindex(self, paths) -> ReindexObs:
        o = ReindexObs()
        o.day = self.day
        o.paths = None if paths is None else [rel(self.root, p) for p in paths]
        hp = self.root / ".zorg" / "file_hash.json"
        o.hash_before = json.loads(hp.read_text()) if hp.exists() else {}
        o.files_before = {rel(self.root, p): p.read_text() for p in self.pages()}
        before = db.dump_index(self.root)
        o.rows_before = before.notes
        o.pages_before = before.pages
        with frozen(self.day):
            considered = list(o.files_before) if paths is None else o.paths
            for r in considered:
                if o.hash_before.get(r) != hashlib.sha256(o.files_before[r].encode()).hexdigest():
                    c = harness.compile_path(self.root, Path(r))
                    o.compiled_before[r] = None if (c.exc is not None or c.parser_errors) else db.page_recs(c.page, self.root)
            TRACER.start(self.root)
            args = ["db", "reindex"] + ([str(p) for p in paths] if paths else [])
            res = db.cli(self.root, *args)
            o.effects = TRACER.stop()
        o.rc, o.err = res.rc, res.err
        o.files_after = {rel(self.root, p): p.read_text() for p in self.pages()}
        d = db.dump_index(self.root)
        o.rows_after = d.notes
        o.pages_after = d.pages
        o.dump_problems = d.problems
        self.reindex_obs.append(o)
        self.log.append(Step("reindex", paths=o.paths, day=self.day, rc=res.rc).to_json())
        considered_rels = set(o.files_before) if paths is None else set(o.paths)
        o.refusal_expected = bool(considered_rels & set(self.broken))
        if res.rc != 0:
            if o.refusal_expected:
                self.refusals += 1  # a page with a syntax error is refused: legitimate, the history goes on
            else:
                self.failed = f"db reindex failed rc={res.rc}: {res.err[-400:]}"
        return o

    def run(self, kinds: list) -> None:
        for k in kinds:
            if self.failed:
                return
            self.do(k)
        while self.broken and not self.failed:
            self.do("repair_page")
        if not self.failed:
            self.reindex(None)

    # ---------------------------------------------------------------- rebuild
    def rebuild_dump(self) -> db.IndexDump:
        """`db create` on a copy of the final files (fresh .zorg), same frozen day."""
        other = self.root.parent / "rebuild" / "org"
        if other.parent.exists():
            shutil.rmtree(other.parent)
        other.mkdir(parents=True)
        for p in self.pages():
            t = other / rel(self.root, p)
            t.parent.mkdir(parents=True, exist_ok=True)
            t.write_bytes(p.read_bytes())
        with frozen(self.day):
            res = db.cli(other, "db", "create")
        d = db.dump_index(other)
        if res.rc != 0:
            d.problems.append(f"rebuild db create failed rc={res.rc}: {res.err[-300:]}")
        # a rebuild must not need to touch the files (all notes already carry ZIDs)
        for p in self.pages():
            if (other / rel(self.root, p)).read_bytes() != p.read_bytes():
                d.problems.append(f"rebuild changed {rel(self.root, p)} (a note still lacked a ZID after the final reindex?)")
        self.rebuild_root = other
        return d

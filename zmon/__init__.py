"""zmon — runtime monitors and offline oracles for zorg's semantic properties.

Nothing in here is imported by the repository.  The repository under test is
whatever is first on PYTHONPATH (``$VERIF_REPO/src``; see ``/verif/check``).
"""

import os
import sys

VERIF_DIR = os.path.dirname(os.path.dirname(os.path.abspath(__file__)))
REPO = os.environ.get("VERIF_REPO", "/repo")

# third-party helpers (icontract) live in .deps; appended LAST so that they can
# never shadow a package of the repository's own interpreter.
_deps = os.path.join(VERIF_DIR, ".deps")
if os.path.isdir(_deps) and _deps not in sys.path:
    sys.path.append(_deps)

"""Field-by-field oracle: compiled notes vs. the notes a page was rendered from."""

from __future__ import annotations

import datetime as dt

KIND_OF_STATUS = {"OPEN_TODO": "o", "CLOSED_TODO": "x", "CANCELED_TODO": "~", "BLOCKED_TODO": "<", "PARENT_TODO": ">"}


def note_kind(note) -> str:
    if note.todo_payload is None:
        return "-"
    return KIND_OF_STATUS[note.todo_payload.status.name]


def compare_c01(notes, expected, today: dt.date) -> list[tuple[str, str]]:
    """Returns [(class, message)] for C01's fields."""
    out = []
    if len(notes) != len(expected):
        out.append(("note count differs", f"compiled {len(notes)} notes, page has {len(expected)} items"))
        return out
    for i, (n, e) in enumerate(zip(notes, expected)):
        k = note_kind(n)
        if k != e.kind:
            out.append(("kind differs", f"note {i} (line {e.line_no}): kind {k!r} != written {e.kind!r}"))
        pr = n.todo_payload.priority if n.todo_payload else None
        if pr != e.priority:
            out.append(("priority differs", f"note {i} (line {e.line_no}): priority {pr!r} != written/default {e.priority!r}"))
        if n.body != e.body:
            out.append(("body differs", f"note {i} (line {e.line_no}): body {n.body!r} != written {e.body!r}"))
        if n.line_no != e.line_no:
            out.append(("line number differs", f"note {i}: line_no {n.line_no} != {e.line_no}"))
        if n.zid != e.zid:
            out.append(("zid differs", f"note {i} (line {e.line_no}): zid {n.zid!r} != written {e.zid!r}"))
        if e.own_create is not None and n.create_date != e.own_create:
            out.append(("create date differs", f"note {i} (line {e.line_no}): create_date {n.create_date} != written {e.own_create}"))
        elif e.own_create is None and n.create_date != (e.create or today):
            # the item writes no date: a body word that merely looks like one must not become its date
            out.append(("create date differs", f"note {i} (line {e.line_no}): item writes no date but create_date {n.create_date} != inherited {e.create or today}"))
        if e.mod is not None:
            if n.modify_date != e.mod:
                out.append(("modify date differs", f"note {i} (line {e.line_no}): modify_date {n.modify_date} != written {e.mod}"))
        else:
            # no modify date written: it equals the note's creation date
            if n.modify_date != n.create_date:
                out.append(("modify date differs", f"note {i} (line {e.line_no}): no modify date written but modify_date {n.modify_date} != create_date {n.create_date}"))
    return out


def compare_c02(notes, expected, today: dt.date) -> list[tuple[str, str]]:
    out = []
    if len(notes) != len(expected):
        out.append(("note count differs", f"compiled {len(notes)} notes, page has {len(expected)} items"))
        return out
    for i, (n, e) in enumerate(zip(notes, expected)):
        for attr in ("areas", "contexts", "people", "projects", "links"):
            got = sorted(getattr(n, attr))
            want = getattr(e, attr)
            if got != want:
                leaked = sorted(set(got) - set(want))
                lost = sorted(set(want) - set(got))
                cls = f"{attr}: " + ("leak" if leaked else "") + ("+" if leaked and lost else "") + ("loss" if lost else "") + ("" if leaked or lost else "duplicate")
                out.append((cls, f"note {i} (line {e.line_no}): {attr} leaked={leaked} lost={lost}"))
        if dict(n.properties) != e.props:
            gp, wp = dict(n.properties), e.props
            leaked = {k: v for k, v in gp.items() if k not in wp}
            lost = {k: v for k, v in wp.items() if k not in gp}
            wrong = {k: (gp[k], wp[k]) for k in gp if k in wp and gp[k] != wp[k]}
            cls = "properties: " + "/".join(x for x, c in (("leak", leaked), ("loss", lost), ("wrong value", wrong)) if c)
            out.append((cls, f"note {i} (line {e.line_no}): properties leaked={leaked} lost={lost} wrong(got,want)={wrong}"))
        want_create = e.create or today
        if n.create_date != want_create:
            out.append(("inherited create date differs", f"note {i} (line {e.line_no}): create_date {n.create_date} != expected {want_create} (own={e.own_create})"))
    return out

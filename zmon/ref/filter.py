"""Reference evaluator of WHERE filter structures over raw index rows.

Written from the property statement, three-valued (Kleene): ``True``, ``False``
or ``None`` (unknown: a typed comparison against a stored value that is not
cleanly of that type).  The check requires  must ⊆ result ⊆ must ∪ unknown.
"""

from __future__ import annotations

import datetime as dt
import re

_ISO = re.compile(r"^\d{4}-\d{2}-\d{2}$")


def k_and(vals):
    out = True
    for v in vals:
        if v is False:
            return False
        if v is None:
            out = None
    return out


def k_or(vals):
    out = False
    for v in vals:
        if v is True:
            return True
        if v is None:
            out = None
    return out


def k_not(v):
    return None if v is None else (not v)


TODAY = None  # set by the check (frozen day) so that relative date values can be resolved


def _value_date(v: str):
    d = _iso(v)
    if d is not None:
        return d
    m = re.match(r"^(\d+)([dmyDMY])$", v)
    if m and TODAY is not None:
        from zmon.gen.query import resolve_date

        return resolve_date(m.group(1) + m.group(2).lower(), TODAY)
    return None


class Universe:
    def __init__(self, notes: list[dict]):
        self.notes = notes
        self.by_page: dict = {}
        for n in notes:
            self.by_page.setdefault(n["page"], []).append(n)


def glob_match(glob: str, path: str) -> bool:
    """Only '*' is special; everything else is literal (case as written)."""
    rx = "^" + ".*".join(re.escape(p) for p in glob.split("*")) + "$"
    return re.match(rx, path, re.S) is not None


def _cmp(op: str, a, b) -> bool:
    return {"EQ": a == b, "LT": a < b, "LE": a <= b, "GT": a > b, "GE": a >= b}[op]


def _iso(s: str):
    if _ISO.match(s):
        try:
            return dt.date.fromisoformat(s)
        except ValueError:
            return None
    return None


def eval_prop(pf, note) -> "bool | None":
    has = pf.key in note["props"]
    op = pf.op.name
    if op == "EXISTS":
        return (not has) if pf.negated else has
    if not has:
        return False  # a (negated) comparison keeps the requirement that the property exists
    stored = note["props"][pf.key]
    vt = pf.value_type.name
    if vt == "DATE":
        want = _value_date(pf.value)
        got = _iso(stored)
        if want is not None and got is None and stored[:1].isalpha() and stored.lower() != "now":
            # a word is not a date: it cannot satisfy a date comparison (the negated form,
            # "exists and not cmp", is left unjudged for such values)
            return None if pf.negated else False
        if want is None or got is None:
            return None
        r = _cmp(op, got, want)
    elif vt == "INTEGER":
        if not (stored.isascii() and stored.isdigit()) or not (pf.value.isascii() and pf.value.isdigit()):
            return None
        r = _cmp(op, int(stored), int(pf.value))
    else:
        if not stored.isascii() or not pf.value.isascii():
            return None
        r = _cmp(op, stored, pf.value)
    return (not r) if pf.negated else r


def eval_desc(df, note) -> bool:
    pat, body = df.value, note["body"]
    sensitive = df.case_sensitive
    if sensitive is None:
        sensitive = any(c.isupper() for c in pat)
    hit = (pat in body) if sensitive else (pat.lower() in body.lower())
    return (not hit) if df.op.name == "NOT_CONTAINS" else hit


def eval_link(lf, note, uni: Universe) -> bool:
    p = lf.link
    targets = {p}
    prefixes = (p + "#",)
    for owner in uni.by_page.get(p + ".zo", []):
        if owner["zid"]:
            targets.add("zid:" + owner["zid"])
        if "ID" in owner["props"]:
            targets.add("global:" + owner["props"]["ID"])
        if "RID" in owner["props"]:
            targets.add("ref:" + owner["props"]["RID"])
    hit = any(l in targets or l.startswith(prefixes) for l in note["links"])
    return (not hit) if lf.negated else hit


def eval_and(af, note, uni: Universe) -> "bool | None":
    vals = []
    if af.allowed_note_types:
        kinds = {t.value for t in af.allowed_note_types}
        vals.append(note["kind"] in kinds)
    if af.priorities:
        vals.append(note["priority"] in af.priorities)
    for attr in ("areas", "contexts", "people", "projects"):
        for t in getattr(af, attr):
            if t.startswith("-"):
                vals.append(t[1:] not in note[attr])
            else:
                vals.append(t in note[attr])
    for ranges, key in ((af.create_date_ranges, "create"), (af.modify_date_ranges, "modify")):
        for r in ranges:
            d = dt.date.fromisoformat(note[key])
            end = r.end if r.end is not None else r.start
            vals.append(dt.date(r.start.year, r.start.month, r.start.day) <= d <= dt.date(end.year, end.month, end.day))
    for pf in af.property_filters:
        vals.append(eval_prop(pf, note))
    for df in af.desc_filters:
        vals.append(eval_desc(df, note))
    for ff in af.file_filters:
        m = glob_match(ff.path_glob, note["page"])
        vals.append((not m) if ff.negated else m)
    for lf in af.link_filters:
        vals.append(eval_link(lf, note, uni))
    for orf in af.or_filters:
        vals.append(eval_or(orf, note, uni))
    return k_and(vals)


def eval_or(orf, note, uni: Universe) -> "bool | None":
    return k_or(eval_and(af, note, uni) for af in orf.and_filters)


def evaluate(where, uni: Universe):
    """-> (must: set of zids, unknown: set of zids)"""
    must, unknown = set(), set()
    for n in uni.notes:
        v = True if where is None or not list(where.and_filters) else eval_or(where, n, uni)
        if v is True:
            must.add(n["zid"])
        elif v is None:
            unknown.add(n["zid"])
    return must, unknown

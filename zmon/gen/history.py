"""Edit histories over a notes directory: text-level edit operations (what a
user does in an editor or a shell) that keep every page well-formed."""

from __future__ import annotations

import random
import re
from pathlib import Path

from . import page as pg

ITEM_START = re.compile(r"^[-ox~<>] ")
EMPTY_ITEM = re.compile(r"^[-ox~<>] (P\d )? *$")
RULE_START = re.compile(r"^(#{32}|={24}|\+{16}|-{8}) ")
PRIO = re.compile(r"^([ox~<>]) P(\d) ")
ZID_TOKEN = re.compile(r"^\d{6}#[0-9A-Za-z]{2,3}$")


def scan(text: str):
    """-> (lines, items) where items = [(start, end)] line index spans of note/todo items."""
    lines = text.split("\n")
    items = []
    i = 0
    # skip the head (up to the first blank line)
    while i < len(lines) and lines[i].strip() != "":
        i += 1
    while i < len(lines):
        if EMPTY_ITEM.match(lines[i]):
            i += 1  # a prefix with nothing behind it is an item without body: zorg skips it, it is not a note
        elif ITEM_START.match(lines[i]):
            j = i + 1
            while j < len(lines) and lines[j].startswith("  ") and lines[j].strip() != "":
                j += 1
            items.append((i, j))
            i = j
        else:
            i += 1
    return lines, items


def first_line_parts(line: str):
    """-> (prefix, mod, zid, rest_words) of an item's first line."""
    m = PRIO.match(line)
    if m:
        prefix = line[: m.end()]
    else:
        prefix = line[:2]
    words = line[len(prefix) :].split(" ")
    mod = zid = None
    k = 0
    while k < len(words) and words[k] == "":
        k += 1
    if k < len(words) and len(words[k]) == 6 and words[k].isdigit():
        mod = words[k]
        k += 1
    if k < len(words) and ZID_TOKEN.match(words[k]):
        zid = words[k]
        k += 1
    elif mod is not None and zid is None:
        pass
    return prefix, mod, zid, words[k:]


class Ctx:
    def __init__(self, rng: random.Random):
        self.rng = rng
        self.n = 0
        self.zid_n = 0

    def word(self) -> str:
        self.n += 1
        r = self.rng.random()
        if r < 0.08:
            return f"\u00e9d{self.n}\u00e9"  # non-ASCII at both ends of the word
        if r < 0.12:
            return f"ed{self.n}\x0cff"  # form feed: a line break for str.splitlines(), not for the format
        if r < 0.16:
            return f"ed{self.n}\u2028ls"
        return f"ed{self.n}"

    def fresh_zid(self, day) -> str:
        self.zid_n += 1
        a = pg.ZID_ALPHABET
        return day.strftime("%y%m%d") + "#Z" + a[self.zid_n // len(a) % len(a)] + a[self.zid_n % len(a)]


# Each op: (text, ctx, today) -> new text or None when not applicable
def op_edit_body(text, ctx, today):
    lines, items = scan(text)
    if not items:
        return None
    s, _e = ctx.rng.choice(items)
    lines[s] = lines[s].rstrip(" ") + " " + ctx.word()
    return "\n".join(lines)


def op_edit_body_middle(text, ctx, today):
    lines, items = scan(text)
    if not items:
        return None
    s, _e = ctx.rng.choice(items)
    prefix, mod, zid, rest = first_line_parts(lines[s])
    head = [w for w in (mod, zid) if w]
    lines[s] = prefix + " ".join(head + [ctx.word()] + rest)
    return "\n".join(lines)


def op_edit_bullet(text, ctx, today):
    lines, items = scan(text)
    multi = [(s, e) for s, e in items if e - s > 1]
    if multi and ctx.rng.random() < 0.6:
        s, e = ctx.rng.choice(multi)
        k = ctx.rng.randrange(s + 1, e)
        lines[k] = lines[k].rstrip(" ") + " " + ctx.word()
    elif items:
        s, e = ctx.rng.choice(items)
        lines.insert(s + 1, "  * " + ctx.word() + " bullet")
    else:
        return None
    return "\n".join(lines)


def op_change_kind(text, ctx, today):
    lines, items = scan(text)
    todos = [s for s, _e in items if lines[s][0] in "ox~<>"]
    if not todos:
        return None
    s = ctx.rng.choice(todos)
    new = ctx.rng.choice([c for c in "ox~<>" if c != lines[s][0]])
    lines[s] = new + lines[s][1:]
    return "\n".join(lines)


def op_change_priority(text, ctx, today):
    lines, items = scan(text)
    todos = [s for s, _e in items if lines[s][0] in "ox~<>"]
    if not todos:
        return None
    s = ctx.rng.choice(todos)
    m = PRIO.match(lines[s])
    if m:
        new = ctx.rng.choice([d for d in "0123456789" if d != m.group(2)])
        lines[s] = f"{m.group(1)} P{new} " + lines[s][m.end() :]
    else:
        lines[s] = lines[s][:2] + f"P{ctx.rng.randint(0, 9)} " + lines[s][2:].lstrip(" ")
    return "\n".join(lines)


def _new_item(ctx, today, with_zid: bool) -> str:
    kind = ctx.rng.choice(pg.KINDS)
    pre = kind + (f" P{ctx.rng.randint(0, 9)}" if kind != "-" and ctx.rng.random() < 0.5 else "") + " "
    z = ctx.fresh_zid(today) + " " if with_zid else ""
    tag = ctx.rng.choice(["", " #newtag", " +sharedprj", " @ctx_h", " k_h::v1"])
    return pre + z + "added " + ctx.word() + tag


def op_add_note(text, ctx, today, with_zid=False):
    lines, items = scan(text)
    new = _new_item(ctx, today, with_zid)
    if items and ctx.rng.random() < 0.7:
        _s, e = ctx.rng.choice(items)
        lines.insert(e, new)
    else:
        # new block at the end of the page
        while lines and lines[-1] == "":
            lines.pop()
        lines += ["", new, ""]
    return "\n".join(lines)


def op_add_note_zid(text, ctx, today):
    return op_add_note(text, ctx, today, with_zid=True)


def op_delete_note(text, ctx, today):
    lines, items = scan(text)
    if not items:
        return None
    s, e = ctx.rng.choice(items)
    del lines[s:e]
    return "\n".join(lines)


def op_retitle_section(text, ctx, today):
    lines = text.split("\n")
    heads = [i for i, l in enumerate(lines) if RULE_START.match(l)]
    if not heads:
        return None
    i = ctx.rng.choice(heads)
    lines[i] = lines[i].rstrip(" ") + " " + ctx.rng.choice([ctx.word(), "#sectag_h", "+sharedprj", "k_h::v2"])
    return "\n".join(lines)


def op_edit_header(text, ctx, today):
    lines = text.split("\n")
    lines[0] = lines[0].rstrip(" ") + " " + ctx.rng.choice([ctx.word(), "#pagetag_h", "+sharedprj"])
    return "\n".join(lines)


PAGE_OPS = {
    "edit_body": op_edit_body,
    "edit_body_middle": op_edit_body_middle,
    "edit_bullet": op_edit_bullet,
    "change_kind": op_change_kind,
    "change_priority": op_change_priority,
    "add_note": op_add_note,
    "add_note_zid": op_add_note_zid,
    "delete_note": op_delete_note,
    "retitle_section": op_retitle_section,
    "edit_header": op_edit_header,
}


def cut_item(text, ctx):
    lines, items = scan(text)
    if not items:
        return None, None
    s, e = ctx.rng.choice(items)
    cut = lines[s:e]
    del lines[s:e]
    return "\n".join(lines), cut


def paste_item(text, cut, ctx):
    lines, items = scan(text)
    if items:
        _s, e = ctx.rng.choice(items)
        lines[e:e] = cut
    else:
        while lines and lines[-1] == "":
            lines.pop()
        lines += [""] + cut + [""]
    return "\n".join(lines)


def zo_files(root: Path) -> list[Path]:
    return sorted(p for p in root.rglob("*.zo") if ".zorg" not in p.parts)


def evolve_files(root: Path, rng: random.Random, allow_delete_page: bool = True) -> list[str]:
    """Edits a notes directory the way a user would between two reindex runs (remove links / tags /
    whole notes, edit bodies, maybe delete a page).  Returns a log.  The caller runs `db reindex`
    afterwards: the index then is an *incrementally updated* one (orphan rows, reused ids, …)."""
    log = []
    ctx = Ctx(rng)
    pages = zo_files(root)
    if allow_delete_page and len(pages) > 2 and rng.random() < 0.3:
        p = pages.pop()
        p.unlink()
        log.append(f"delete {p.name}")
    for p in pages:
        t = p.read_text()
        if rng.random() < 0.6:
            t = re.sub(r" \[\[[^\]\n]*\]\]", "", t, count=rng.randint(1, 4))
            log.append(f"unlink in {p.name}")
        if rng.random() < 0.4:
            t = re.sub(r" [#@%+][A-Za-z_][A-Za-z_0-9]*", "", t, count=rng.randint(1, 3))
            log.append(f"untag in {p.name}")
        if rng.random() < 0.3:
            t2 = op_delete_note(t, ctx, None)
            if t2 is not None:
                t = t2
                log.append(f"delete note in {p.name}")
        if rng.random() < 0.4:
            t2 = op_edit_body(t, ctx, None)
            if t2 is not None:
                t = t2
                log.append(f"edit body in {p.name}")
        orig = p.read_text()
        p.write_text(t)
        # removing a link / tag can leave an item without body: such an edit is not a valid page any more and is undone
        from zmon import harness

        c = harness.compile_path(root, p.relative_to(root))
        if c.exc is not None or c.parser_errors:
            p.write_text(orig)
            log.append(f"(edit of {p.name} undone: not a valid page)")
    return log

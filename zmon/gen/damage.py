"""Text damage and garbage generators for totality checks."""

from __future__ import annotations

import random

GRAMMAR_ALPHABET = list(" \n#-ox~<>P0123456789abzAZ_:[]()'\"@%+=*&?!;|\\`{}/.,^$") + ["[[", "]]", "::", "  * ", "    - ", "      + ", "\n\n", "# ", "- ", "o ", "################################ ", "======================== ", "++++++++++++++++ ", "-------- ", "240101#AB ", "240101 ", "2024-01-01 ", "https://a.b/c ", "[k:: v] ", "k::v ", "[#id] ", "[^id] ", "\r\n", "\t"]
NASTY_WORDS = ["230229", "250229#A1", "2023-02-29", "210229", "240431", "240431#zz", "2024-04-31", "000230", "240229", "240229#Ab", "2024-02-29", "123456", "999999", "241939#AB", "240231#zz", "2024-13-45", "2000-00-00", "2999-19-39", "[a::b::c]", "[a:: ]", "[::]", "k::", "::v", "[[", "]]", "[[]]", "[#]", "((", "))", "P", "P10", "o", "x", "#", "@", "%", "+", "'", '"', "'#tag'", "[k::v w]", "240101#", "240101#A", "#240101", "@123456", "[240231#AB]", "http://", "https://a", "https://a.b:99999/x?y", "a::b::c", "[a::b]::c", "000000", "000000#00", "0000-00-00"]


def damage(text: str, rng: random.Random) -> tuple[str, list[str]]:
    ops = []
    for _ in range(rng.randint(1, 5)):
        if not text:
            break
        op = rng.choice(["del", "ins", "swap", "dupline", "delline", "trunc", "trunc_nl", "crlf", "join", "nasty", "insline", "tab", "nul", "nonascii", "dedent"])
        i = rng.randrange(len(text))
        lines = text.split("\n")
        if op == "del":
            k = rng.choice([1, 1, 2, 5])
            text = text[:i] + text[i + k :]
        elif op == "ins":
            text = text[:i] + rng.choice(GRAMMAR_ALPHABET) + text[i:]
        elif op == "swap" and len(text) > 2:
            j = min(len(text) - 1, i + 1)
            text = text[:i] + text[j] + text[i] + text[j + 1 :] if j > i else text
        elif op == "dupline":
            j = rng.randrange(len(lines))
            lines.insert(j, lines[j])
            text = "\n".join(lines)
        elif op == "delline":
            j = rng.randrange(len(lines))
            del lines[j]
            text = "\n".join(lines)
        elif op == "trunc":
            text = text[:i]
        elif op == "trunc_nl":
            text = text[:i] + "\n"
        elif op == "crlf":
            text = text.replace("\n", "\r\n") if rng.random() < 0.5 else text[:i] + text[i:].replace("\n", "\r\n", 2)
        elif op == "join":
            j = text.find("\n", i)
            if j >= 0:
                text = text[:j] + rng.choice(["", " "]) + text[j + 1 :]
        elif op == "nasty":
            sp = text.find(" ", i)
            if sp >= 0:
                text = text[: sp + 1] + rng.choice(NASTY_WORDS) + " " + text[sp + 1 :]
        elif op == "insline":
            j = rng.randrange(len(lines) + 1)
            lines.insert(j, rng.choice(["", "#", "# x", "- " + rng.choice(NASTY_WORDS), "o P1 " + rng.choice(NASTY_WORDS) + " foo", "  * k:: v", "################################ T", "-------- deep", "++++++++++++++++ mid", "garbage", "-", "o", "- ", "    - "]))
            text = "\n".join(lines)
        elif op == "tab":
            text = text[:i] + "\t" + text[i:]
        elif op == "nul":
            text = text[:i] + "\x00" + text[i:]
        elif op == "nonascii":
            text = text[:i] + rng.choice(["é", "→", " ", "日本", "﻿"]) + text[i:]
        elif op == "dedent":
            j = rng.randrange(len(lines))
            lines[j] = lines[j].lstrip(" ")
            text = "\n".join(lines)
        ops.append(op)
    return text, ops


def garbage(rng: random.Random) -> bytes:
    r = rng.random()
    n = rng.choice([0, 1, 2, 5, 20, 80, 300, 1500])
    if r < 0.3:
        return "".join(rng.choice(GRAMMAR_ALPHABET) for _ in range(n)).encode()
    if r < 0.5:
        return bytes(rng.randrange(256) for _ in range(n))
    if r < 0.7:
        return "".join(chr(rng.randrange(32, 127)) for _ in range(n)).encode()
    if r < 0.85:
        # header-ish prefix followed by token soup
        return ("# T\n\n" + "".join(rng.choice(GRAMMAR_ALPHABET + NASTY_WORDS) for _ in range(n))).encode() + (b"\n" if rng.random() < 0.5 else b"")
    # item lines made of nasty words
    lines = ["# T", ""]
    for _ in range(rng.randint(1, 8)):
        lines.append(rng.choice(["- ", "o ", "x P1 ", "~ ", "< P9 ", "> "]) + " ".join(rng.choice(NASTY_WORDS + ["foo", "bar"]) for _ in range(rng.randint(1, 4))))
        if rng.random() < 0.3:
            lines.append(rng.choice(["  * ", "    - ", "      + ", "  "]) + " ".join(rng.choice(NASTY_WORDS + ["k::", "foo"]) for _ in range(rng.randint(0, 3))))
    return ("\n".join(lines) + "\n").encode()

"""Generator of SWOG query *structures* and their rendering to text.

The structure is built first (with the repository's plain dataclasses as data
containers); the text is rendered from it with randomised but legal surface
choices.  Because the text is rendered from the structure, the expected compiled
query is known by construction.
"""

from __future__ import annotations

import calendar
import datetime as dt
import random
from dataclasses import dataclass, field
from typing import Optional

# identifiers that the query lexer really lexes as ID (no literal tokens such as
# S W O G prop links note count c, no single digits 1-9, no N[dmy], no YYMMDD)
IDENTS = ["foo", "bar", "Baz", "work", "home_2", "a1", "zz9", "tag", "ctx", "who", "prj", "Work", "Z9", "k9", "t_t", "alpha2", "ox", "xo", "o", "x", "due", "file", "none", "type", "priority", "alpha", "create", "modify", "section", "P1", "1015", "2024-01-01", "Some", "Wx", "cc", "fx"]
KEYS = ["due", "kA", "kB", "ID", "RID", "p", "status", "foo", "file", "type"]
STR_VALUES = ["foo", "Done", "v1", "x9", "M_Th", "P1", "a1", "1_0", "20_24", "1_000_000", "1e3", "0x10", "1_", "0_0", "12abc", "5x"]  # incl. number look-alikes that are NOT all digits
INT_VALUES = ["0", "10", "42", "100", "007", "1015", "123456", "25", "00"]
DATE_VALUES = ["2024-01-01", "2024-03-13", "2025-12-31", "2031-03-14", "2000-02-29", "7D", "0D", "2M", "1Y", "10D", "12M"]
DESC_WORDS = ["foo", "bar", "Foo", "BAR", "note", "50", "a_b", "ox", "quick", "lazy", "Dog", "x9", "the", "zz", "o", "x", "due", "none"]
DESC_SYMS = ["%", "_", "\\", "&", "=", "(", ")", "?", "*", "~", "#", "@", "+", "-", ".", "/", ":", ";", ",", "`", "{", "}", "<", ">", "^", "$"]
KIND_CHARS = "-ox~<>"


def priority_spellings():
    """All 64 ascending spellings Pn / Pn-m and the set each denotes."""
    out = []
    for n in range(10):
        out.append((f"P{n}", frozenset({f"P{n}"})))
        for m in range(max(n, 1), 10):
            out.append((f"P{n}-{m}", frozenset(f"P{k}" for k in range(n, m + 1))))
    return out


PRIORITY_SPELLINGS = priority_spellings()
assert len(PRIORITY_SPELLINGS) == 64 and len({s for _t, s in PRIORITY_SPELLINGS}) == 55


def add_months(d: dt.date, months: int) -> dt.date:
    """Independent calendar arithmetic with end-of-month clamping."""
    idx = d.year * 12 + (d.month - 1) + months
    y, m = divmod(idx, 12)
    m += 1
    last = calendar.monthrange(y, m)[1]
    return dt.date(y, m, min(d.day, last))


def resolve_date(spec: str, today: dt.date) -> dt.date:
    if len(spec) == 6 and spec.isdigit():
        return dt.date(2000 + int(spec[:2]), int(spec[2:4]), int(spec[4:6]))
    neg = spec.startswith("-")
    body = spec[1:] if neg else spec
    n, unit = int(body[:-1]), body[-1]
    sign = -1 if neg else 1
    if unit == "d":
        return today + dt.timedelta(days=sign * n)
    if unit == "m":
        return add_months(today, sign * n)
    return add_months(today, sign * 12 * n)


@dataclass
class QCase:
    text: str
    select: object
    where: object
    order_by: tuple
    group_by: tuple
    features: set = field(default_factory=set)
    has_exists: bool = False


class QGen:
    def __init__(self, rng: random.Random, today: dt.date, *, idents=None, keys=None, desc_words=None, files=None, links=None, max_depth: int = 3, atom_weights: Optional[dict] = None, date_pool=None, str_values=None, int_values=None, date_values=None):
        from zorg.domain import models as M
        from zorg.domain import types as T

        self.M, self.T = M, T
        self.rng = rng
        self.today = today
        self.idents = idents or IDENTS
        self.keys = keys or KEYS
        self.desc_words = desc_words or DESC_WORDS
        self.files = files or ["foo", "a_b", "axb", "sub/prj", "notes", "p"]
        self.links = links or ["foo", "a_b", "sub/prj", "notes"]
        self.max_depth = max_depth
        self.date_pool = date_pool
        self.desc_syms = DESC_SYMS
        self.str_values = str_values or STR_VALUES
        self.int_values = int_values or INT_VALUES
        self.date_values = date_values or DATE_VALUES
        self.features: set = set()
        self.has_exists = False
        self.w = {"kind": 3, "prio": 2, "tag": 4, "sub": 2, "create": 2, "modify": 2, "prop": 4, "desc": 3, "file": 2, "link": 2}
        if atom_weights:
            self.w.update(atom_weights)

    # ---- atoms: each returns (text, mutator(and_filter_dict))
    def ident(self) -> str:
        return self.rng.choice(self.idents)

    def a_kind(self):
        rng = self.rng
        chars = []
        for _ in range(rng.choice([1, 1, 2, 3])):
            c = rng.choice(KIND_CHARS)
            if chars and chars[-1] in "ox" and c in "ox":
                c = rng.choice("-~<>")  # 'ox' would lex as one identifier
            chars.append(c)
        text = "".join(chars)
        T = self.T.NoteType
        m = {"-": T.BASIC, "o": T.OPEN_TODO, "x": T.CLOSED_TODO, "~": T.CANCELED_TODO, "<": T.BLOCKED_TODO, ">": T.PARENT_TODO}
        self.features.add("kind" + str(len(chars)))
        return text, lambda f: f["allowed_note_types"].update(m[c] for c in chars)

    def a_prio(self, spelling=None):
        text, s = spelling or self.rng.choice(PRIORITY_SPELLINGS)
        self.features.add("prio-range" if "-" in text else "prio")
        return text, lambda f: f["priorities"].update(s)

    def a_tag(self):
        rng = self.rng
        sym = rng.choice("#@%+")
        neg = rng.random() < 0.3
        name = self.ident()
        attr = {"#": "areas", "@": "contexts", "%": "people", "+": "projects"}[sym]
        self.features.add("tag" + ("!" if neg else ""))
        return ("!" if neg else "") + sym + name, lambda f: f[attr].add(("-" if neg else "") + name)

    def zdate(self):
        rng = self.rng
        r = rng.random()
        if r < 0.35 or (self.date_pool and r < 0.6):
            if rng.random() < 0.08:
                from .page import SPECIAL_DAYS

                d = rng.choice(SPECIAL_DAYS)
            elif self.date_pool:
                d = rng.choice(self.date_pool) + dt.timedelta(days=rng.choice([0, 0, 0, -1, 1]))
            else:
                d = dt.date(2024, 1, 1) + dt.timedelta(days=rng.randint(0, 2500))
            self.features.add("date-short")
            return d.strftime("%y%m%d")
        unit = rng.choice("dmy")
        n = rng.choice([0, 1, 2, 3, 7, 10, 11, 12, 13, 24, 30, 31, 45, 100, 365]) if unit != "y" else rng.choice([0, 1, 2, 4, 5, 10])
        neg = rng.random() < 0.5
        self.features.add(f"date-rel-{unit}{'-' if neg else '+'}")
        return ("-" if neg else "") + f"{n}{unit}"

    def a_range(self, which: str):
        rng = self.rng
        start = self.zdate()
        end = self.zdate() if rng.random() < 0.5 else None
        sym = "^" if which == "create" else "$"
        text = sym + start + (":" + end if end else "")
        dr = self.M.DateRange(resolve_date(start, self.today), resolve_date(end, self.today) if end else None)
        self.features.add(which + ("-range-end" if end else "-range"))
        key = "create_date_ranges" if which == "create" else "modify_date_ranges"
        return text, lambda f: f[key].add(dr)

    def a_prop(self):
        rng, T = self.rng, self.T
        key = rng.choice(self.keys)
        neg = rng.random() < 0.3
        r = rng.random()
        if r < 0.2:
            self.has_exists = True
            self.features.add("prop-exists" + ("!" if neg else ""))
            pf = self.M.PropertyFilter(key, "", op=T.PropertyOperator.EXISTS, value_type=T.PropertyValueType.INTEGER, negated=neg)
            return ("!" if neg else "") + f"{key}:*", lambda f: f["property_filters"].add(pf)
        op_txt, op = rng.choice([("", T.PropertyOperator.EQ), ("<", T.PropertyOperator.LT), ("<=", T.PropertyOperator.LE), (">", T.PropertyOperator.GT), (">=", T.PropertyOperator.GE)])
        kind = rng.choice(["str", "int", "date"])
        if kind == "str":
            v, vt = rng.choice(self.str_values), T.PropertyValueType.STRING
        elif kind == "int":
            v, vt = rng.choice(self.int_values), T.PropertyValueType.INTEGER
        else:
            v, vt = rng.choice(self.date_values), T.PropertyValueType.DATE
        self.features.add(f"prop-{kind}-{op.name}" + ("!" if neg else ""))
        pf = self.M.PropertyFilter(key, v, op=op, value_type=vt, negated=neg)
        return ("!" if neg else "") + f"{key}:{op_txt}{v}", lambda f: f["property_filters"].add(pf)

    def desc_text(self) -> str:
        rng = self.rng
        words = []
        for _ in range(rng.choice([1, 1, 2, 3])):
            w = ""
            for _ in range(rng.choice([1, 1, 1, 2, 3])):
                r = rng.random()
                if r < 0.65:
                    part = rng.choice(self.desc_words)
                else:
                    part = rng.choice(self.desc_syms)
                # keep tokens apart that would glue into a different token
                if w and (w[-1].isalnum() or w[-1] == "_") and (part[0].isalnum() or part[0] == "_"):
                    part = rng.choice([".", "-", "/", "%", "\\"]) + part
                if w and w[-1] in "^$:" and part[0].isdigit():
                    part = "_" + part
                if w and w[-1] == "-" and part[0].isdigit():
                    part = "_" + part
                if w and w[-1] in "[]" and part[0] in "[]":
                    part = "." + part
                w += part
            words.append(w)
        return " ".join(words)

    def a_desc(self):
        rng, T = self.rng, self.T
        neg = rng.random() < 0.3
        cs = rng.random() < 0.25
        q = rng.choice("'\"")
        text = self.desc_text()
        if rng.random() < 0.15:
            text = text + rng.choice(['"', "'"]).replace(q, "")  # the other quote char is an ordinary symbol
        self.features.add("desc" + ("!" if neg else "") + ("c" if cs else "") + ("-meta" if any(c in text for c in "%_\\") else ""))
        df = self.M.DescFilter(value=text, case_sensitive=True if cs else None, op=T.DescOperator.NOT_CONTAINS if neg else T.DescOperator.CONTAINS)
        return ("!" if neg else "") + ("c" if cs else "") + q + text + q, lambda f: f["desc_filters"].add(df)

    def a_file(self):
        rng = self.rng
        neg = rng.random() < 0.3
        base = rng.choice(self.files)
        form = rng.choice(["exact", "prefix", "suffix", "both", "suffix_"])
        parts = base.split("/")
        last = parts[-1]
        if form in ("prefix", "both") and len(last) > 1:
            last_t = last[: rng.randint(1, len(last))]
        elif form in ("suffix", "suffix_") and len(last) > 1:
            last_t = last[rng.randint(0, len(last) - 1) :]
            last_t = last_t.lstrip("_") or last
        else:
            last_t = last
        if not (last_t[0].isalnum()):
            last_t = last
        pre = "/".join(parts[:-1]) + "/" if len(parts) > 1 and form in ("exact", "prefix") else ""
        body = pre
        if form in ("suffix", "both"):
            body += "*"
        elif form == "suffix_":
            body += "*_"
        body += last_t
        if form in ("prefix", "both"):
            body += "*"
        glob = body if body.endswith("*") else body + ".zo"
        self.features.add("file-" + form + ("!" if neg else ""))
        ff = self.M.FileFilter(glob, negated=neg)
        return ("!" if neg else "") + "f=" + body, lambda f: f["file_filters"].add(ff)

    def a_link(self):
        neg = self.rng.random() < 0.3
        name = self.rng.choice(self.links)
        self.features.add("link" + ("!" if neg else ""))
        lf = self.M.LinkFilter(name, negated=neg)
        return ("!" if neg else "") + "[[" + name + "]]", lambda f: f["link_filters"].add(lf)

    # ---- tree
    def and_filter(self, depth: int):
        rng = self.rng
        fields = {k: set() for k in ("allowed_note_types", "areas", "contexts", "create_date_ranges", "desc_filters", "file_filters", "link_filters", "modify_date_ranges", "people", "property_filters", "priorities", "projects")}
        subs = []
        texts = []
        n = rng.choice([1, 1, 2, 2, 3, 4])
        kinds = [k for k in self.w if not (k == "sub" and depth >= self.max_depth)]
        weights = [self.w[k] for k in kinds]
        for _ in range(n):
            k = rng.choices(kinds, weights)[0]
            if k == "sub":
                t, orf = self.or_filter(depth + 1)
                texts.append("(" + t + ")")
                subs.append(orf)
                self.features.add(f"sub-depth{depth + 1}")
                continue
            t, mut = {"kind": self.a_kind, "prio": self.a_prio, "tag": self.a_tag, "create": lambda: self.a_range("create"), "modify": lambda: self.a_range("modify"), "prop": self.a_prop, "desc": self.a_desc, "file": self.a_file, "link": self.a_link}[k]()
            texts.append(t)
            mut(fields)
        af = self.M.WhereAndFilter(or_filters=subs, **fields)
        return " ".join(texts), af

    def or_filter(self, depth: int = 0):
        n = self.rng.choice([1, 1, 1, 2, 3, 4] if depth == 0 else [1, 2, 2, 3])
        parts = [self.and_filter(depth) for _ in range(n)]
        if n > 1:
            self.features.add(f"or{n}")
        return " | ".join(t for t, _ in parts), self.M.WhereOrFilter([a for _, a in parts])

    # ---- clauses
    def select(self):
        T, rng = self.T, self.rng
        S = T.SelectStaticType
        fields = [("file", S.FILE), ("note", S.NOTE), ("prop", S.PROPERTY), ("links", S.LINKS), ("@", S.CONTEXT), ("#", S.AREA), ("+", S.PROJECT), ("%", S.PERSON)]
        if rng.random() < 0.2:
            k = rng.choice([x for x in self.keys])
            t, s = f"prop:{k}", T.SelectPropertyValues(k)
        else:
            t, s = rng.choice(fields)
        if rng.random() < 0.25:
            self.features.add("select-count")
            return f"count({t})", T.SelectAggregation("count", s)
        self.features.add("select-" + t.split(":")[0])
        return t, s

    def order(self):
        O = self.T.OrderByType
        atoms = [("alpha", O.ALPHA), ("create", O.CREATE_DATE), ("modify", O.MODIFY_DATE), ("priority", O.PRIORITY), ("type", O.NOTE_TYPE), ("none", O.NONE)]
        n = self.rng.randint(1, 6)
        pick = [self.rng.choice(atoms) for _ in range(n)]
        self.features.add(f"order{n}")
        return " ".join(t for t, _ in pick), tuple(o for _, o in pick)

    def group(self):
        G = self.T.GroupByType
        atoms = [("file", G.FILE), ("section", G.SECTION), ("type", G.NOTE_TYPE), ("priority", G.PRIORITY), ("none", None), ("@", G.CONTEXT), ("#", G.AREA), ("%", G.PERSON), ("+", G.PROJECT)]
        n = self.rng.randint(1, 4)
        pick = [self.rng.choice(atoms) for _ in range(n)]
        self.features.add(f"group{n}")
        return " ".join(t for t, _ in pick), tuple(g for _, g in pick if g is not None)

    def query(self) -> QCase:
        rng, T = self.rng, self.T
        self.features = set()
        self.has_exists = False
        default_order = (T.OrderByType.NOTE_TYPE, T.OrderByType.PRIORITY, T.OrderByType.MODIFY_DATE, T.OrderByType.CREATE_DATE)
        sel_t, sel = (None, T.SelectStaticType.NOTE)
        has_where = rng.random() < 0.85
        if rng.random() < 0.5 or not has_where:
            sel_t, sel = self.select()
        where_t, where = (None, None)
        if has_where:
            where_t, where = self.or_filter(0)
        o_t, order = (None, default_order)
        g_t, group = (None, ())
        if rng.random() < 0.5:
            o_t, order = self.order()
        if rng.random() < 0.5:
            g_t, group = self.group()
        parts = []
        if sel_t is not None:
            parts.append("S " + sel_t)
        if where_t is not None:
            parts.append("W " + where_t)
        og = []
        if o_t is not None:
            og.append("O " + o_t)
        if g_t is not None:
            og.append("G " + g_t)
        if len(og) == 2 and rng.random() < 0.5:
            og.reverse()
            self.features.add("G-before-O")
        if not og:
            self.features.add("no-O-no-G")
        text = " ".join(parts + og)
        return QCase(text, sel, where, order, group, set(self.features), self.has_exists)

"""Generator of notes directories (several pages, sub-directories, links
between pages, ID/RID properties) on top of the page model."""

from __future__ import annotations

import datetime as dt
import random
from dataclasses import dataclass, field
from pathlib import Path
from typing import Optional

from . import page as pg
from .page import W

PAGE_NAMES = ["a_b", "axb", "ab", "a_bc", "prj", "prj2", "notes", "Notes1", "in_box", "inxbox", "p", "q_r", "qxr", "done", "z9"]
SUBDIRS = ["", "", "", "sub", "sub", "d2", "sub/deep"]


@dataclass
class ZDir:
    pages: dict = field(default_factory=dict)  # relpath (with .zo) -> pg.Page
    extra_files: dict = field(default_factory=dict)  # relpath -> text (templates, zoq)

    def render(self) -> dict:
        out = {}
        for rel, p in self.pages.items():
            out[rel] = pg.render(p)[0]
        out.update(self.extra_files)
        return out

    def expected(self) -> dict:
        return {rel: pg.render(p)[1] for rel, p in self.pages.items()}

    def write(self, root: Path) -> None:
        for rel, text in self.render().items():
            f = root / rel
            f.parent.mkdir(parents=True, exist_ok=True)
            f.write_text(text)


def link_name(rel: str) -> str:
    return rel[:-3] if rel.endswith(".zo") else rel


def gen_zdir(rng: random.Random, opts: Optional[pg.GenOpts] = None, n_pages=None, cross_links: bool = True) -> ZDir:
    opts = opts or pg.GenOpts(max_items=3, max_blocks=2, allow_mod_without_zid=False)
    if opts.zid_registry is None:
        opts.zid_registry = set()
    z = ZDir()
    n = n_pages or rng.choice([1, 2, 2, 3, 4, 5, 6])
    names = rng.sample(PAGE_NAMES, min(n, len(PAGE_NAMES)))
    gen = pg.PageGen(rng, opts)
    rels = []
    for nm in names:
        sub = rng.choice(SUBDIRS)
        rel = (sub + "/" if sub else "") + nm + ".zo"
        rels.append(rel)
    # two pages may share their base name as long as they live in different directories
    if rels and rng.random() < 0.35:
        src = rng.choice(rels)
        base = src.split("/")[-1]
        for sub in rng.sample(["", "sub", "d2", "sub/deep", "other"], 5):
            cand = (sub + "/" if sub else "") + base
            if cand not in rels:
                rels.append(cand)
                break
    for d in ("sub", "d2"):
        if any(r.startswith(d + "/") for r in rels) and d + ".zo" not in rels and rng.random() < 0.3:
            rels.append(d + ".zo")  # a page named like a sub-directory that holds pages
    for rel in rels:
        z.pages[rel] = gen.page()
    # a three-character ZID that extends another note's two-character ZID (240101#AB / 240101#ABc)
    with_zid = [it for rel in rels for _b, it in pg.iter_items(z.pages[rel]) if it.zid]
    two = [it for it in with_zid if len(it.zid) == 9]
    if two and len(with_zid) >= 2 and rng.random() < 0.35:
        a = rng.choice(two)
        b = rng.choice([it for it in with_zid if it is not a])
        cand = a.zid + rng.choice(pg.ZID_ALPHABET)
        if cand not in opts.zid_registry:
            opts.zid_registry.discard(b.zid)
            opts.zid_registry.add(cand)
            if b.mod is not None:
                b.mod = None
            b.zid = cand
    if cross_links and len(rels) > 0:
        # sprinkle links to real pages, ID/RID owners and references to them
        ids = []
        for rel in rels:
            items = [it for _b, it in pg.iter_items(z.pages[rel])]
            for it in items:
                r = rng.random()
                if r < 0.25:
                    tgt = link_name(rng.choice(rels))
                    form = rng.choice(["plain", "anchor"])
                    t = tgt if form == "plain" else tgt + "#" + rng.choice(["a1", "sec"])
                    it.words.append(W("[[" + t + "]]", links=(t,), form="link"))
                elif r < 0.35:
                    idv = f"gid{len(ids)}"
                    key = rng.choice(["ID", "RID"])
                    ids.append((key, idv, it))
                    it.words.append(W(f"{key}::{idv}", props=((key, idv),), form="prop"))
            for it in items:
                if ids and rng.random() < 0.15:
                    key, idv, _owner = rng.choice(ids)
                    if key == "ID":
                        it.words.append(W(f"[#{idv}]", links=(f"global:{idv}",), form="idlink"))
                    else:
                        it.words.append(W(f"[@{idv}]", links=(f"ref:{idv}",), form="idlink"))
        zids = [it.zid for rel in rels for _b, it in pg.iter_items(z.pages[rel]) if it.zid]
        for rel in rels:
            for _b, it in pg.iter_items(z.pages[rel]):
                if zids and rng.random() < 0.08:
                    zz = rng.choice(zids)
                    if zz != it.zid:
                        it.words.append(W(f"[{zz}]", links=(f"zid:{zz}",), form="zidlink"))
    return z

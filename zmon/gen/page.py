"""Abstract model of a ``.zo`` page, a renderer that follows ZorgFile.g4, and the
*expected* notes known by construction (no second parser is used as oracle).

The model is deliberately small; everything it can express is listed here so a
reader can audit what "well-formed page" means for the monitors:

  page    := title line ('# ' words) , further header lines , >=1 blank line ,
             root blocks , H2 sections (before any H1) , H1 sections
  section := rule of 32/24/16/8 characters + ' ' + title words ; nesting
             H1 > H2 > H3 > H4 ; blank lines after the header optional
  block   := items and in-block comments, followed by >=1 blank line
  item    := kind char [' ' Pn] gap [YYMMDD] [ZID] [YYYY-MM-DD] words
             continuation lines (>= 2 spaces of indent; '* ' '- ' '+ ' bullets,
             L1 bullet properties 'key:: value words')
"""

from __future__ import annotations

import datetime as dt
import random
from dataclasses import dataclass, field
from typing import Optional

KINDS = "-ox~<>"
RULES = {1: "#" * 32, 2: "=" * 24, 3: "+" * 16, 4: "-" * 8}
ZID_ALPHABET = "0123456789ABCDEFGHJKLMNPRTUVWXYZabcdefhkmnorstuvwxz"  # 51 chars


# --------------------------------------------------------------------------- words
@dataclass
class W:
    text: str
    areas: tuple = ()
    contexts: tuple = ()
    people: tuple = ()
    projects: tuple = ()
    links: tuple = ()
    props: tuple = ()  # ((key, value), ...)
    form: str = "plain"

    def has_meta(self) -> bool:
        return bool(self.areas or self.contexts or self.people or self.projects or self.links or self.props)


PLAIN_WORDS = [
    "alpha", "Beta", "gamma_delta", "n42", "42", "x1", "ox", "xo", "Todo", "note", "file", "none", "type", "S", "W",
    "a", "B", "zz9", "foo", "bar", "baz", "Foo_Bar", "lorem", "ipsum", "dolor", "7up", "v2_0", "prop", "links", "count",
    "PROPERTY", "P", "Px", "P10", "o2", "xx", "the", "quick", "brown", "fox", "jumps", "over", "lazy", "dog", "0", "007",
]
PUNCT_TAIL = [",", ".", "?", "!", ";", ":", ")", "...", "?!"]
SYMBOL_WORDS = ["#", "@", "%", "&", "=", "?", "*", "~", "<", ">", "|", "\\", "`", "{", "}", "_", "^", "$", "-", "--", "=>", "<=", "(", ")", "!", ";", ",", "/"]
# first body words of notes WITHOUT ZID that are, by the format's definition, ordinary words, but that
# look date-ish to one helper or another (relative date specs, near-dates, bare P)
HOSTILE_FIRST = ["2023-02-29", "2024-04-31", "1999-12-31", "2024-13-01", "230229", "P1", "P7", "3D", "10m", "2d", "1y", "0d", "12M", "7D", "2024-1-1", "20240101", "2024-01", "P", "Px", "1015", "0", "d", "-1d", "10min", "5x"]
COLLISION_WORDS = ["o", "x", "P5", "P0", "P9", "2024-01-01", "2031-12-31", "1015", "0000", "2359", "240101#AB", "991231#zz", "240101#0a1", "240101", "000101"]
URLS = ["https://example.com", "https://foo.com/bar/baz", "http://a.b.org/p-1", "https://www.foobar.com/q?k=v", "https://site.io/a/b#frag"]


def _name(rng: random.Random, uniq: Optional[str] = None) -> str:
    base = rng.choice(["tag", "ctx", "who", "prj", "Work", "home_2", "a1", "Z", "k9", "t_t", "alpha", "o1", "xq"])
    return f"{base}_{uniq}" if uniq else base


# words with characters outside the lexer's alphabet: the lexer skips those characters, but they are user
# text and belong to the body verbatim ("plain": the word still contains an identifier; "symbol": no token at all)
FOREIGN_WORDS = [("caf\u00e9", "plain"), ("na\u00efve", "plain"), ("Zo\u00eb's", "plain"), ("r\u00e9sum\u00e9,", "plain"), ("\u00e9clair", "plain"), ("sm\u00f6rg\u00e5sbord", "plain"), ("\u20ac5", "plain"), ("(\u00fcber)", "plain"), ("\u2014", "symbol"), ("\u65e5\u672c\u8a9e", "symbol"), ("\u2026", "symbol"), ("\u0441\u043c\u044b\u0441\u043b", "symbol")]


# characters that str.splitlines() / str.split() treat as line / word separators although the format does not
EXOTIC_SEPARATOR_WORDS = [("page\x0cbreak", "plain"), ("line\u2028sep", "plain"), ("a\x0bb", "plain"), ("n\x85l", "plain"), ("u\x1cs", "plain"), ("para\u2029graph", "plain"), ("x\x1ey", "plain")]


def w_foreign(rng: random.Random, symbols: bool = True, pool=None) -> W:
    pool = pool or FOREIGN_WORDS
    t, form = rng.choice(pool if symbols else [f for f in pool if f[1] == "plain"])
    return W(t, form=form)


def w_plain(rng: random.Random) -> W:
    return W(rng.choice(PLAIN_WORDS))


def w_punct(rng: random.Random) -> W:
    w = rng.choice(PLAIN_WORDS)
    r = rng.random()
    if r < 0.5:
        return W(w + rng.choice(PUNCT_TAIL), form="punct")
    if r < 0.7:
        return W("(" + w + ")", form="punct")
    if r < 0.8:
        return W("(" + w, form="punct")
    if r < 0.9:
        return W(w + "-" + rng.choice(PLAIN_WORDS), form="punct")
    return W(w + "." + rng.choice(PLAIN_WORDS) + "/" + rng.choice(PLAIN_WORDS), form="punct")


ODD_WORDS = ["'tis", "it's", '"unterminated', "[x]", "a=b", "{a}", "50%", "c++", "a@b", "x#y", "e.g.", "(see", "end)", "--flag", "a/b/c", "*bold*", "_it_", "~5", "<tag>", "1/2", "3.14", "v1.2.3", "q?", "a&b", "$5", "^up"]


def w_odd(rng: random.Random) -> W:
    """Legal words of unusual shape that carry no metadata."""
    return W(rng.choice(ODD_WORDS), form="odd")


def w_symbol(rng: random.Random) -> W:
    return W(rng.choice(SYMBOL_WORDS), form="symbol")


def w_collision(rng: random.Random) -> W:
    return W(rng.choice(COLLISION_WORDS), form="collision")


def w_quoted(rng: random.Random) -> W:
    q = rng.choice("'\"")
    return W(q + rng.choice(PLAIN_WORDS) + q, form="quoted")


def w_tag(rng: random.Random, uniq: Optional[str] = None, kind: Optional[str] = None) -> W:
    kind = kind or rng.choice("#@%+")
    n = _name(rng, uniq)
    attr = {"#": "areas", "@": "contexts", "%": "people", "+": "projects"}[kind]
    tail = rng.choice(["", "", "", ",", ".", ")", ";"]) if uniq is None else ""
    return W(kind + n + tail, form="tag", **{attr: (n,)})


def w_digit_tag(rng: random.Random) -> W:
    # names made only of digits never become tags
    return W(rng.choice("#@%+") + rng.choice(["1", "42", "007", "2024", "12345"]), form="digit_tag")


def w_link(rng: random.Random, uniq: Optional[str] = None) -> W:
    n = _name(rng, uniq)
    r = rng.random()
    if r < 0.6:
        t = n
    elif r < 0.8:
        t = "dir/" + n
    else:
        t = n + "#" + rng.choice(["anchor", "a1", "sec_2"])
    return W("[[" + t + "]]", links=(t,), form="link")


def w_idlink(rng: random.Random, uniq: Optional[str] = None) -> W:
    n = _name(rng, uniq)
    k = rng.choice(["#", "^", "@"])
    pre = {"#": "global:", "^": "local:", "@": "ref:"}[k]
    return W("[" + k + n + "]", links=(pre + n,), form="idlink")


def w_zidlink(rng: random.Random) -> W:
    z = rand_zid(rng, dt.date(2024, 1, 1) + dt.timedelta(days=rng.randint(0, 400)))
    return W("[" + z + "]", links=("zid:" + z,), form="zidlink")


def w_url(rng: random.Random) -> W:
    u = rng.choice(URLS)
    return W(u, links=("x:" + u,), form="url")


def w_prop(rng: random.Random, uniq: Optional[str] = None, key: Optional[str] = None) -> W:
    k = key or _name(rng, None) + ("k" + uniq if uniq else "")
    v = rng.choice(["v1", "val", "42", "P1", "x9", "Done"]) + (("_" + uniq) if uniq else "")
    return W(f"{k}::{v}", props=((k, v),), form="prop")


def w_inline_prop(rng: random.Random, uniq: Optional[str] = None, key: Optional[str] = None) -> W:
    k = key or _name(rng, None) + ("i" + uniq if uniq else "")
    if rng.random() < 0.5:
        v = rng.choice(["v1", "val", "42"]) + (("_" + uniq) if uniq else "")
        return W(f"[{k}::{v}]", props=((k, v),), form="inline_prop")
    vs = [rng.choice(["some", "value", "with", "words", "M", "7"]) for _ in range(rng.randint(2, 3))]
    if uniq:
        vs.append("u" + uniq)
    v = " ".join(vs)
    return W(f"[{k}:: {v}]", props=((k, v),), form="inline_prop")


def w_embed(rng: random.Random) -> W:
    return W("((" + rng.choice(PLAIN_WORDS) + "))", form="embed")


def rand_zid(rng: random.Random, day: dt.date, three: Optional[bool] = None) -> str:
    n = 3 if (three if three is not None else rng.random() < 0.25) else 2
    # first suffix character is a letter, so generated ZIDs can never collide with
    # suffixes the real allocator hands out first (00, 01, ... 0z, 10, ...)
    return day.strftime("%y%m%d") + "#" + rng.choice(ZID_ALPHABET[10:]) + "".join(rng.choice(ZID_ALPHABET) for _ in range(n - 1))


# --------------------------------------------------------------------------- model
@dataclass
class Cont:
    indent: str
    bullet: str  # "", "* ", "- ", "+ "
    words: list
    prop_key: Optional[str] = None  # L1 bullet property 'key:: words'

    def text(self) -> str:
        head = self.indent + self.bullet
        body = " ".join(w.text for w in self.words)
        if self.prop_key is not None:
            return head + self.prop_key + "::" + (" " + body if body else "")
        return head + body


@dataclass
class Item:
    kind: str
    words: list
    priority: Optional[int] = None
    mod: Optional[dt.date] = None
    zid: Optional[str] = None
    ldate: Optional[dt.date] = None
    cont: list = field(default_factory=list)
    gap: str = " "
    trail: str = ""
    uid: str = ""  # generator-side identity, never rendered

    def head_tokens(self) -> list:
        t = []
        if self.mod:
            t.append(self.mod.strftime("%y%m%d"))
        if self.zid:
            t.append(self.zid)
        if self.ldate:
            t.append(self.ldate.isoformat())
        t.extend(w.text for w in self.words)
        return t

    def first_line(self) -> str:
        pre = self.kind + (f" P{self.priority}" if self.priority is not None else "")
        return pre + self.gap + " ".join(self.head_tokens()) + self.trail

    def lines(self) -> list:
        return [self.first_line()] + [c.text() for c in self.cont]

    def body(self) -> str:
        return "\n".join([" ".join(self.head_tokens()) + self.trail] + [c.text() for c in self.cont]).strip()

    def all_words(self):
        yield from self.words
        for c in self.cont:
            yield from c.words


@dataclass
class Comment:
    words: list

    def lines(self) -> list:
        return ["#" + ("".join(" " + w.text for w in self.words))]


@dataclass
class EmptyItem(Comment):
    """An item prefix with nothing behind it ('o P1 ', '- '): valid for the grammar, an item WITHOUT body, which is
    not a note (zorg skips it); like a comment it must leave no trace in the notes around it."""

    text: str = "- "

    def lines(self) -> list:
        return [self.text]


@dataclass
class Block:
    entries: list
    blank_after: int = 1


@dataclass
class Section:
    level: int
    words: list
    date: Optional[dt.date] = None
    blank_after_header: int = 0
    blank_before: int = 0
    blocks: list = field(default_factory=list)
    children: list = field(default_factory=list)

    def title(self) -> str:
        ws = [w.text for w in self.words]
        if self.date:
            ws.append(self.date.isoformat())
        return " ".join(ws)


@dataclass
class Page:
    title_words: list
    title_date: Optional[dt.date] = None
    header_lines: list = field(default_factory=list)  # list[list[W]]
    blank_after_head: int = 1
    blocks: list = field(default_factory=list)
    sections: list = field(default_factory=list)  # H2s (before any H1) then H1s
    final_newline: bool = True


@dataclass
class Expected:
    kind: str
    priority: Optional[str]
    body: str
    line_no: int
    zid: Optional[str]
    own_create: Optional[dt.date]
    create: Optional[dt.date]  # None => today (frozen clock)
    mod: Optional[dt.date]  # None => equals create
    areas: list
    contexts: list
    people: list
    projects: list
    links: list
    props: dict
    own_props: dict
    own_tags: dict
    section_path: tuple
    block_ord: int
    uid: str = ""
    sources: dict = field(default_factory=dict)  # value -> scope it was written in


class _Scope:
    def __init__(self):
        self.areas, self.contexts, self.people, self.projects, self.links = [], [], [], [], []
        self.props: dict = {}
        self.date = None

    def add_words(self, words, tags=True, props=True):
        for w in words:
            if tags:
                self.areas += w.areas
                self.contexts += w.contexts
                self.people += w.people
                self.projects += w.projects
                self.links += w.links
            if props:
                for k, v in w.props:
                    self.props[k] = v


def render(page: Page):
    """Returns (text, [Expected]) for *page*."""
    lines: list = []
    exp: list = []

    file_scope = _Scope()
    tl = "#" + "".join(" " + w.text for w in page.title_words)
    if page.title_date:
        tl += " " + page.title_date.isoformat()
    lines.append(tl)
    file_scope.add_words(page.title_words)
    file_scope.date = page.title_date
    for hl in page.header_lines:
        lines.append("#" + "".join(" " + w.text for w in hl))
        file_scope.add_words(hl, tags=False, props=True)
    lines.extend([""] * max(1, page.blank_after_head))

    def emit_blocks(blocks, scopes, path):
        for bi, b in enumerate(blocks):
            for e in b.entries:
                if isinstance(e, Comment):
                    lines.extend(e.lines())
                    continue
                line_no = len(lines) + 1
                lines.extend(e.lines())
                own = _Scope()
                own.add_words(e.words)
                for c in e.cont:
                    own.add_words(c.words)
                # bullet properties are credited when the item is finished => after inline ones
                for c in e.cont:
                    if c.prop_key is not None:
                        own.props[c.prop_key] = " ".join(" ".join(w.text for w in c.words).split())
                allsc = scopes + [own]
                props: dict = {}
                for s in allsc:
                    props.update(s.props)
                own_create = None
                if e.zid:
                    own_create = dt.datetime.strptime("20" + e.zid[:6], "%Y%m%d").date()
                elif e.ldate:
                    own_create = e.ldate
                create = own_create
                if create is None:
                    for s in reversed(scopes):
                        if s.date:
                            create = s.date
                            break
                exp.append(
                    Expected(
                        kind=e.kind,
                        priority=None if e.kind == "-" else (f"P{e.priority}" if e.priority is not None else "P3"),
                        body=e.body(),
                        line_no=line_no,
                        zid=e.zid,
                        own_create=own_create,
                        create=create,
                        mod=e.mod,
                        areas=sorted({x for s in allsc for x in s.areas}),
                        contexts=sorted({x for s in allsc for x in s.contexts}),
                        people=sorted({x for s in allsc for x in s.people}),
                        projects=sorted({x for s in allsc for x in s.projects}),
                        links=sorted({x for s in allsc for x in s.links}),
                        props=props,
                        own_props=dict(own.props),
                        own_tags={"areas": sorted(set(own.areas)), "contexts": sorted(set(own.contexts)), "people": sorted(set(own.people)), "projects": sorted(set(own.projects)), "links": sorted(set(own.links))},
                        section_path=tuple(path),
                        block_ord=bi,
                        uid=e.uid,
                    )
                )
            lines.extend([""] * max(1, b.blank_after))

    def emit_section(sec: Section, scopes, path):
        lines.extend([""] * sec.blank_before)
        lines.append(RULES[sec.level] + " " + sec.title())
        lines.extend([""] * sec.blank_after_header)
        sc = _Scope()
        sc.add_words(sec.words)
        sc.date = sec.date
        npath = path + [sec.title()]
        emit_blocks(sec.blocks, scopes + [sc], npath)
        for ch in sec.children:
            emit_section(ch, scopes + [sc], npath)

    emit_blocks(page.blocks, [file_scope], [])
    for sec in page.sections:
        emit_section(sec, [file_scope], [])
    text = "\n".join(lines)
    if page.final_newline or not text.endswith("\n"):
        text += "\n" if page.final_newline else ""
    return text, exp


def iter_items(page: Page):
    def walk_blocks(blocks):
        for b in blocks:
            for e in b.entries:
                if isinstance(e, Item):
                    yield b, e

    def walk_sec(s):
        yield from walk_blocks(s.blocks)
        for c in s.children:
            yield from walk_sec(c)

    yield from walk_blocks(page.blocks)
    for s in page.sections:
        yield from walk_sec(s)


def iter_sections(page: Page):
    def walk(s):
        yield s
        for c in s.children:
            yield from walk(c)

    for s in page.sections:
        yield from walk(s)


# --------------------------------------------------------------------------- generators
@dataclass
class GenOpts:
    max_depth: int = 4
    p_zid: float = 0.5
    p_mod: float = 0.3
    p_ldate: float = 0.25
    p_priority: float = 0.5
    p_cont: float = 0.35
    p_collision: float = 0.25
    p_meta: float = 0.3
    p_comment: float = 0.15
    p_section_meta: float = 0.4
    p_bullet_prop: float = 0.25
    irregular_gap: bool = False
    unique_meta: bool = False
    symbols: bool = True
    kinds: str = KINDS
    max_items: int = 4
    max_blocks: int = 2
    day0: dt.date = dt.date(2024, 1, 1)
    day_span: int = 900
    zid_registry: Optional[set] = None  # to keep ZIDs unique across a directory
    allow_idfree_trigger: bool = False  # see idfree_trigger()
    p_mod_equals_create: float = 0.0  # explicit YYMMDD equal to the ZID's own date
    allow_mod_without_zid: bool = True
    p_foreign: float = 0.04  # body words with non-ASCII characters (see FOREIGN_WORDS)
    foreign_pool: Optional[list] = None  # default FOREIGN_WORDS
    p_special_day: float = 0.06  # see SPECIAL_DAYS
    p_empty_item: float = 0.05  # see EmptyItem


# days at the edges of what YYMMDD can carry: leap days (incl. 2000-02-29, a leap year only by the 400 rule),
# both sides of the %y pivot (68/69), first and last representable day
SPECIAL_DAYS = [dt.date(2000, 2, 29), dt.date(2000, 1, 1), dt.date(2024, 2, 29), dt.date(2028, 2, 29), dt.date(2068, 12, 31), dt.date(2069, 1, 1), dt.date(2070, 6, 15), dt.date(2096, 2, 29), dt.date(2099, 12, 31), dt.date(2000, 12, 31)]


class PageGen:
    def __init__(self, rng: random.Random, opts: Optional[GenOpts] = None):
        self.rng = rng
        self.o = opts or GenOpts()
        self._u = 0
        self._zids = self.o.zid_registry if self.o.zid_registry is not None else set()
        self._item_no = 0

    # -- helpers
    def uniq(self) -> Optional[str]:
        if not self.o.unique_meta:
            return None
        self._u += 1
        return str(self._u)

    def day(self) -> dt.date:
        if self.o.p_special_day and self.rng.random() < self.o.p_special_day:
            return self.rng.choice(SPECIAL_DAYS)
        return self.o.day0 + dt.timedelta(days=self.rng.randint(0, self.o.day_span))

    def new_zid(self, day: Optional[dt.date] = None) -> str:
        while True:
            z = rand_zid(self.rng, day or self.day())
            if z not in self._zids:
                self._zids.add(z)
                return z

    def meta_word(self, where: str = "item") -> W:
        r = self.rng.random()
        u = self.uniq()
        if r < 0.35:
            return w_tag(self.rng, u)
        if r < 0.5:
            return w_link(self.rng, u)
        if r < 0.62:
            return w_prop(self.rng, u)
        if r < 0.72:
            return w_inline_prop(self.rng, u)
        if r < 0.82:
            return w_idlink(self.rng, u)
        if r < 0.88 and where == "item":
            return w_zidlink(self.rng)
        if r < 0.94:
            return w_url(self.rng)
        return w_tag(self.rng, u)

    def filler(self, allow_collision: bool) -> W:
        r = self.rng.random()
        if allow_collision and r < self.o.p_collision:
            return w_collision(self.rng)
        if r < 0.55:
            return w_plain(self.rng)
        if r < 0.75:
            return w_punct(self.rng)
        if r < 0.79 and self.o.symbols:
            return w_symbol(self.rng)
        if r < 0.83 and self.o.symbols:
            return w_odd(self.rng)
        if r < 0.88:
            return w_quoted(self.rng)
        if r < 0.92:
            return w_embed(self.rng)
        if r < 0.95:
            return w_digit_tag(self.rng)
        return w_plain(self.rng)

    def words(self, n: int, first_safe: bool = False, where: str = "item", allow_collision: bool = True) -> list:
        out = []
        for i in range(n):
            if self.rng.random() < self.o.p_meta:
                w = self.meta_word(where)
            else:
                w = self.filler(allow_collision and not (first_safe and i == 0))
                if where == "item" and self.o.p_foreign and self.rng.random() < self.o.p_foreign:
                    # (never a token-less word in first position: an item made only of such words is, for the grammar, empty)
                    w = w_foreign(self.rng, self.o.symbols and not (first_safe and i == 0), self.o.foreign_pool)
            out.append(w)
        if first_safe and out:
            # the first body word must not *be* a prefix by the format's own definition
            if not _safe_first(out[0].text):
                out[0] = w_plain(self.rng)
                while not _safe_first(out[0].text):
                    out[0] = w_plain(self.rng)
        return out

    # -- structure
    def item(self) -> Item:
        rng, o = self.rng, self.o
        kind = rng.choice(o.kinds)
        it = Item(kind=kind, words=[])
        self._item_no += 1
        it.uid = f"i{self._item_no}"
        if kind != "-" and rng.random() < o.p_priority:
            it.priority = rng.randint(0, 9)
        if rng.random() < o.p_zid:
            zday = self.day()
            it.zid = self.new_zid(zday)
            if rng.random() < o.p_mod:
                it.mod = zday + dt.timedelta(days=rng.randint(1, 60))
                if rng.random() < o.p_mod_equals_create:
                    it.mod = zday
                elif rng.random() < 0.1:
                    # a stamp EARLIER than the ZID's own date is legal text too ('o 250215 250301#03 ...')
                    it.mod = max(dt.date(2000, 1, 1), zday - dt.timedelta(days=rng.randint(1, 40)))
                if it.mod.year > 2099:
                    it.mod = zday
        else:
            r = rng.random()
            if r < o.p_ldate:
                it.ldate = self.day()
            elif r < o.p_ldate + (o.p_mod * 0.3 if o.allow_mod_without_zid else 0):
                it.mod = self.day()
        n = rng.choice([1, 1, 2, 3, 3, 4, 5, 7])
        bare_head = it.zid is None and it.mod is None and it.ldate is None
        it.words = self.words(n, first_safe=True, allow_collision=True)
        if not bare_head:
            # after a written prefix any word may follow, including look-alikes
            if rng.random() < o.p_collision:
                it.words[0] = w_collision(rng)
                if it.zid is None and it.mod is not None and _looks_zid(it.words[0].text):
                    it.words[0] = w_plain(rng)  # YYMMDD + ZID *is* a ZID by definition
                if it.zid is None and it.ldate is None and it.mod is None:
                    pass
        if bare_head and rng.random() < 0.15:
            it.words[0] = W(rng.choice(HOSTILE_FIRST), form="hostile_first")
        if kind != "-" and it.priority is None and bare_head and _looks_priority(it.words[0].text):
            it.words[0] = w_plain(rng)  # (for a todo without priority a leading Pn IS its priority)
        if o.irregular_gap and rng.random() < 0.3:
            it.gap = rng.choice(["  ", "   "])
        if rng.random() < 0.05:
            it.trail = " "
        if rng.random() < o.p_cont:
            for _ in range(rng.choice([1, 1, 2, 3, 5])):
                it.cont.append(self.cont())
            # A bullet property's value runs up to the next L1 bullet, so bullet
            # properties are written last (their value is then exactly their line).
            it.cont.sort(key=lambda c: c.prop_key is not None)
        if not o.allow_idfree_trigger and idfree_trigger(it):
            it.words[0] = w_plain(rng)
            while not _safe_first(it.words[0].text):
                it.words[0] = w_plain(rng)
        return it

    def cont(self) -> Cont:
        rng = self.rng
        r = rng.random()
        nw = rng.choice([1, 2, 3, 4])
        if r < self.o.p_bullet_prop:
            key = rng.choice(["foo", "due", "note_k", "A", "k2", "url_t"]) + (("b" + self.uniq()) if self.o.unique_meta else "")
            ws = [w_plain(rng) for _ in range(nw)] if rng.random() >= 0.15 else []  # ('  * key::' without a value is legal)
            return Cont("  ", "* ", ws, prop_key=key)
        # The first word of a bullet is kept free of '::' (a '::' there is the
        # bullet-property syntax, and properties must all sit on one level).
        if r < 0.55:
            return Cont("  ", "* ", [w_plain(rng)] + self.words(nw - 1, allow_collision=True))
        if r < 0.7:
            return Cont("    ", "- ", [w_plain(rng)] + self.words(nw - 1, allow_collision=True))
        if r < 0.78:
            return Cont("      ", "+ ", [w_plain(rng)] + self.words(nw - 1, allow_collision=True))
        return Cont(rng.choice(["  ", "    ", "   ", "        "]), "", [w_plain(rng)] + self.words(nw - 1, first_safe=False, allow_collision=True))

    def comment(self) -> Comment:
        return Comment(self.words(self.rng.randint(0, 4), where="comment", allow_collision=True))

    def block(self) -> Block:
        rng = self.rng
        entries = []
        for _ in range(rng.randint(1, self.o.max_items)):
            if rng.random() < self.o.p_comment:
                entries.append(self.comment())
            elif self.o.p_empty_item and rng.random() < self.o.p_empty_item:
                entries.append(EmptyItem([], text=rng.choice(["o P1 ", "- ", "x P2 ", "< ", "> P9 ", "~ ", "o P0 ", "x "])))
                entries.append(self.item())
            else:
                entries.append(self.item())
        return Block(entries, blank_after=rng.choice([1, 1, 1, 2, 3]))

    def blocks(self, lo: int = 0) -> list:
        return [self.block() for _ in range(self.rng.randint(lo, self.o.max_blocks))]

    def section_words(self) -> list:
        rng = self.rng
        ws = [W(rng.choice(["Title", "Section", "A1", "B2_x", "Inbox", "Done", "Q3"]) + (self.uniq() or ""))]
        for _ in range(rng.randint(0, 2)):
            ws.append(w_plain(rng))
        if rng.random() < self.o.p_section_meta:
            for _ in range(rng.randint(1, 3)):
                w = self.meta_word("header")
                ws.append(w)
        return ws

    def section(self, level: int) -> Section:
        rng = self.rng
        s = Section(level=level, words=self.section_words())
        if rng.random() < 0.3:
            s.date = self.day()
        s.blank_after_header = rng.choice([0, 0, 1, 2])
        s.blank_before = rng.choice([0, 0, 1])
        s.blocks = self.blocks()
        if level < self.o.max_depth:
            for _ in range(rng.choice([0, 0, 1, 1, 2])):
                s.children.append(self.section(level + 1))
        return s

    def page(self) -> Page:
        rng = self.rng
        p = Page(title_words=[W("Page")] + [w_plain(rng) for _ in range(rng.randint(0, 3))])
        if rng.random() < 0.5:
            for _ in range(rng.randint(1, 3)):
                p.title_words.append(self.meta_word("header"))
        if rng.random() < 0.3:
            p.title_date = self.day()
        for _ in range(rng.choice([0, 0, 1, 2])):
            hl = self.words(rng.randint(0, 4), where="header", allow_collision=False)
            p.header_lines.append(hl)
        p.blank_after_head = rng.choice([1, 1, 2])
        p.blocks = self.blocks()
        for _ in range(rng.choice([0, 0, 0, 1, 2])):
            p.sections.append(self.section(2))
        for _ in range(rng.choice([0, 1, 1, 2])):
            p.sections.append(self.section(1))
        return p


def _looks_priority(t: str) -> bool:
    return len(t) == 2 and t[0] == "P" and t[1].isdigit()


def _looks_zid(t: str) -> bool:
    return len(t) in (9, 10) and t[:6].isdigit() and t[6] == "#"


def _looks_short_date(t: str) -> bool:
    return len(t) == 6 and t.isdigit()


def _looks_long_date(t: str) -> bool:
    return len(t) == 10 and t[4] == "-" and t[7] == "-" and t.replace("-", "").isdigit()


def _safe_first(t: str) -> bool:
    """A first body word that is, by the format's own definition, NOT a prefix."""
    core = t.strip("()[],.?!;:'\"")
    return not (_looks_priority(core) or _looks_zid(core) or _looks_short_date(core) or _looks_long_date(core))


# Word forms whose parse contains no `id` rule context (the compiler counts ids,
# not words, to find "the first word" of an item).
IDFREE_FORMS = frozenset({"symbol", "url", "idlink", "zidlink"})


def idfree_trigger(it: Item) -> bool:
    """True iff a prefix look-alike (YYMMDD / ZID / YYYY-MM-DD word) that is NOT
    the item's first word is preceded only by id-free words (and at most the
    written YYMMDD), which is exactly when the compiler's id counting mistakes it
    for a real prefix (known finding C01-idfree-prefix)."""
    if it.zid is not None or it.ldate is not None:
        return False
    for j, w in enumerate(it.words):
        t = w.text
        if j >= 1 and (_looks_zid(t) or ((_looks_short_date(t) or _looks_long_date(t)) and it.mod is None)):
            return True
        if w.form not in IDFREE_FORMS:
            return False
    return False

"""Index content tuned to be hostile to the WHERE-filter implementation:
confusable page names, shared and near-miss tag names, property values of every
type, dates clustered around range ends, bodies containing %, _, \\ and quotes,
links of every kind incl. ID / RID / ZID indirection."""

from __future__ import annotations

import datetime as dt
import random

from . import page as pg
from .page import W
from .zdir import ZDir

PAGES = ["a_b", "axb", "ab", "a_bc", "prj", "prj2", "notes", "p", "q_r", "qxr", "in_box"]
DIRS = ["", "", "sub", "d2"]
TAGS = ["foo", "bar", "work", "Work", "work2", "home_2", "a1", "ox", "o", "zz9"]
KEYS = ["due", "kA", "kB", "p", "status", "foo", "Who", "Week", "S1"]  # (incl. keys starting with the clause letters W / S)
INT_VALUES = ["0", "5x", "10", "42", "100", "007", "12abc", "25"]
DATE_VALUES = ["2024-01-01", "2031-03-14", "2031-03-13", "2031-03-15", "2024-1-1", "20240101", "2025-12-31"]
STR_VALUES = ["Done", "done", "foo", "v1", "M_Th", "a1", "fo", "1_0", "4_2"]
BODY_WORDS = ["foo", "bar", "Foo", "BAR", "quick", "lazy", "Dog", "x9", "the", "zz", "50%", "a_b", "axb", "a\\b", "100%_done", "ab", "a%b", "Some", "note_1", "noteX1", "50", "5000", "dog's", 'say"hi"', "_x", "x_", "(foo)", "foo.bar", "o", "x", "due", "none"]
DESC_WORDS = ["foo", "bar", "Foo", "BAR", "quick", "Dog", "dog", "x9", "zz", "50", "a_b", "axb", "ab", "note_1", "notex1", "o", "x", "done", "fo"]
DAY_OFFSETS = [0, 0, -1, 1, -2, -7, 7, -10, 10, -13, -14, -28, -30, -31, 31, -59, -365, -366, -400, 12, 29]


def gen_corpus(rng: random.Random, today: dt.date) -> tuple[ZDir, dict]:
    z = ZDir()
    n = rng.choice([2, 3, 3, 4, 5])
    names = rng.sample(PAGES, n)
    rels = []
    for nm in names:
        d = rng.choice(DIRS)
        rels.append((d + "/" if d else "") + nm + ".zo")
    # a page whose name is also the name of a sub-directory that holds pages (sub.zo next to sub/x.zo)
    for d in ("sub", "d2"):
        if any(r.startswith(d + "/") for r in rels) and d + ".zo" not in rels and rng.random() < 0.5:
            rels.append(d + ".zo")
    if rng.random() < 0.35:
        base = rng.choice(rels).split("/")[-1]
        for d in rng.sample(["", "sub", "d2", "other"], 4):
            cand = (d + "/" if d else "") + base
            if cand not in rels:
                rels.append(cand)
                break
    link_names = [r[:-3] for r in rels]
    near_miss = [x for x in ["a_b", "axb", "a_bc", "sub/a_b", "prj", "prjx", "p", "nope"]]
    zids: list = []
    registry: set = set()
    owners: list = []
    dates_used = set()

    def day():
        d = today + dt.timedelta(days=rng.choice(DAY_OFFSETS))
        dates_used.add(d)
        return d

    def item(i: int) -> pg.Item:
        kind = rng.choice(pg.KINDS)
        it = pg.Item(kind=kind, words=[], uid=f"c{i}")
        if kind != "-" and rng.random() < 0.6:
            it.priority = rng.randint(0, 9)
        cd = day()
        while True:
            zz = pg.rand_zid(rng, cd)
            if zz not in registry:
                registry.add(zz)
                break
        it.zid = zz
        zids.append(zz)
        if rng.random() < 0.4:
            md = cd + dt.timedelta(days=rng.choice([0, 1, 3, 10, 30]))
            if md.year < 2100:
                it.mod = md
                dates_used.add(md)
        for _ in range(rng.randint(1, 5)):
            it.words.append(W(rng.choice(BODY_WORDS)))
        for _ in range(rng.choice([0, 0, 1, 1, 2, 3])):
            k = rng.choice("#@%+")
            t = rng.choice(TAGS)
            attr = {"#": "areas", "@": "contexts", "%": "people", "+": "projects"}[k]
            it.words.append(W(k + t, form="tag", **{attr: (t,)}))
        used = set()
        for _ in range(rng.choice([0, 0, 1, 1, 2])):
            key = rng.choice([k for k in KEYS if k not in used] or ["kZ"])
            used.add(key)
            v = rng.choice(rng.choice([INT_VALUES, DATE_VALUES, STR_VALUES]))
            it.words.append(W(f"{key}::{v}", props=((key, v),), form="prop"))
        if rng.random() < 0.2:
            key = rng.choice(["ID", "RID"])
            v = f"g{len(owners)}"
            if owners and rng.random() < 0.4:
                # the same identifier value under the OTHER key (ID::v and RID::v are different things)
                k0, v0 = rng.choice(owners)
                key, v = ("RID" if k0 == "ID" else "ID"), v0
            owners.append((key, v))
            it.words.append(W(f"{key}::{v}", props=((key, v),), form="prop"))
        for _ in range(rng.choice([0, 0, 0, 1, 1, 2])):
            r = rng.random()
            if r < 0.5:
                t = rng.choice(link_names + near_miss)
                if rng.random() < 0.4:
                    t += "#" + rng.choice(["s1", "anc"])
                it.words.append(W("[[" + t + "]]", links=(t,), form="link"))
            elif r < 0.7 and owners:
                key, v = rng.choice(owners)
                if key == "ID":
                    it.words.append(W(f"[#{v}]", links=("global:" + v,), form="idlink"))
                else:
                    it.words.append(W(f"[@{v}]", links=("ref:" + v,), form="idlink"))
            elif zids:
                zz2 = rng.choice(zids)
                if zz2 != it.zid:
                    it.words.append(W(f"[{zz2}]", links=("zid:" + zz2,), form="zidlink"))
        if rng.random() < 0.2:
            it.cont.append(pg.Cont("  ", "* ", [W(rng.choice(BODY_WORDS)) for _ in range(rng.randint(1, 3))]))
        if rng.random() < 0.15:
            # bullet properties, one of them WITHOUT a value ('  * owner::' is legal and indexed with the value '')
            free = [k for k in KEYS + ["owner", "ticket"] if k not in used]
            if len(free) >= 2:
                k1, k2 = rng.sample(free, 2)
                it.cont.append(pg.Cont("  ", "* ", [], prop_key=k1))
                if rng.random() < 0.7:
                    it.cont.append(pg.Cont("  ", "* ", [W(rng.choice(STR_VALUES))], prop_key=k2))
        return it

    cnt = 0
    for rel in rels:
        p = pg.Page(title_words=[W("Page"), W(rel.split("/")[-1][:-3])])
        if rng.random() < 0.4:
            t = rng.choice(TAGS)
            p.title_words.append(W("#" + t, form="tag", areas=(t,)))
        if rng.random() < 0.3:
            p.title_date = day()

        def block():
            nonlocal cnt
            ents = []
            for _ in range(rng.randint(1, 4)):
                ents.append(item(cnt))
                cnt += 1
            return pg.Block(ents)

        p.blocks = [block() for _ in range(rng.randint(0, 2))]
        for si in range(rng.randint(0, 2)):
            sec = pg.Section(level=1, words=[W(rng.choice([f"Sec{si}", "Work", "Work", "Sec"])) ] + ([W(rng.choice(["Log", "A", "2"]))] if rng.random() < 0.4 else []))
            if rng.random() < 0.4:
                t = rng.choice(TAGS)
                sec.words.append(W("+" + t, form="tag", projects=(t,)))
            if rng.random() < 0.3:
                key = rng.choice(KEYS)
                v = rng.choice(STR_VALUES)
                sec.words.append(W(f"{key}::{v}", props=((key, v),), form="prop"))
            sec.blocks = [block() for _ in range(rng.randint(1, 2))]
            if rng.random() < 0.4:
                sub = pg.Section(level=2, words=[W(rng.choice([f"Sub{si}", "Work", "Log"]))], blocks=[block()])
                sec.children.append(sub)
            p.sections.append(sec)
        if rng.random() < 0.3:
            # an H2 (with an H3 child) BEFORE the first H1: legal (body : NL+ block* h2_section* h1_section*)
            pre = pg.Section(level=2, words=[W(rng.choice(["Inbox", "Work", "Pre"]))], blocks=[block()])
            if rng.random() < 0.5:
                pre.children.append(pg.Section(level=3, words=[W(rng.choice(["Later", "Log"]))], blocks=[block()]))
            p.sections.insert(0, pre)
        z.pages[rel] = p
    pools = {"idents": TAGS, "keys": KEYS + ["ID", "RID", "nokey"], "desc_words": DESC_WORDS, "files": link_names + ["a_b", "axb", "sub/a_b", "nope"], "links": link_names + near_miss, "date_pool": sorted(dates_used), "str_values": STR_VALUES, "int_values": ["0", "10", "42", "100", "007", "25"], "date_values": ["2024-01-01", "2031-03-14", "2031-03-13", "2025-12-31", "0D", "7D", "1M", "1Y"]}
    return z, pools

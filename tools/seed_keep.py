#!/usr/bin/env python3
"""usage: tools/seed_keep.py <ID> <caught_by> <initially_missed:0|1> "<needs>" ["<strengthening>"]
Copies a confirmed agent-written breakage from /tmp/seeded/<ID>/ into /verif/seeded/<ID>/ with meta.json."""
import json, os, shutil, sys
sid, caught, missed, needs = sys.argv[1], sys.argv[2], sys.argv[3] == "1", sys.argv[4]
strength = sys.argv[5] if len(sys.argv) > 5 else ""
prop = sid.split("-")[0]
src, dst = f"/tmp/seeded/{sid}", f"/verif/seeded/{sid}"
os.makedirs(dst, exist_ok=True)
for f in ("patch.diff", "demo.py", "notes.md"):
    if os.path.exists(os.path.join(src, f)):
        shutil.copy(os.path.join(src, f), os.path.join(dst, f))
meta = {
    "property": prop,
    "written_by": "independent sub-agent given only the property text and a scratch worktree of /repo",
    "needs_to_manifest": needs,
    "confirmed_by_me": [
        f"tools/seed_eval.sh {sid}: patch applies to a fresh scratch worktree of /repo HEAD; demo.py passes on the unchanged tree and fails on the patched tree; the repository's 84 tests pass on the patched tree",
        f"./check {caught} quick against the patched tree (VERIF_REPO=<scratch worktree>)",
    ],
    "caught_by": caught,
    "initially_missed": missed,
    "strengthening": strength,
}
json.dump(meta, open(os.path.join(dst, "meta.json"), "w"), indent=1)
print("kept", dst)

#!/bin/bash
# usage: tools/mut.sh <ID> <tier> <python-snippet-or-patch-file>
#   Applies a mutation to a scratch copy of the repository's src/ (outside
#   /repo and /verif), runs the check against it with VERIF_REPO, prints the
#   outcome and removes the copy.  The mutation is either a unified diff
#   (file ending in .diff/.patch, applied with `patch -p1`) or a sed program
#   "FILE::SED-EXPR" applied to src-relative FILE.
set -u
ID="$1"; TIER="$2"; MUT="$3"
D=$(mktemp -d /tmp/zorg-mut-XXXXXX)
mkdir -p "$D/repo"
cp -r /repo/src "$D/repo/src"
if [[ "$MUT" == *.diff || "$MUT" == *.patch ]]; then
  (cd "$D/repo" && patch -p1 --quiet < "$MUT") || { echo "patch failed"; rm -rf "$D"; exit 3; }
else
  F="${MUT%%::*}"; E="${MUT#*::}"
  before=$(md5sum "$D/repo/src/$F")
  sed -i -E "$E" "$D/repo/src/$F"
  after=$(md5sum "$D/repo/src/$F")
  [ "$before" == "$after" ] && { echo "MUTATION DID NOT CHANGE $F"; rm -rf "$D"; exit 3; }
fi
export VERIF_EVIDENCE_DIR="$D/evidence"
VERIF_REPO="$D/repo" VERIF_NO_EVIDENCE=1 "$(dirname "$0")/../check" "$ID" "$TIER" 2>&1 | grep -E "VIOLATION|HELD|INCONCLUSIVE|violation class|KNOWN" | head -12
rc=${PIPESTATUS[0]}
rm -rf "$D"
echo "mutant rc=$rc"
exit 0

#!/usr/bin/env python3
"""Regenerates MANIFEST.json from the property modules that exist (run by hand)."""
import importlib.util
import json
import os
import re
import sys

HERE = os.path.dirname(os.path.dirname(os.path.abspath(__file__)))
BASE = "cd /repo && /venv/bin/python -m pytest -ra -q -p no:cacheprovider --timeout=900 --continue-on-collection-errors"

props = [json.loads(l) for l in open(os.path.join(HERE, "properties.jsonl"))]
meta = json.load(open(os.path.join(HERE, "tools", "manifest_meta.json")))
checks = []
na = []
for p in props:
    pid = p["id"]
    path = os.path.join(HERE, "zmon", "props", pid.lower() + ".py")
    m = meta.get(pid)
    if not os.path.exists(path) or m is None or m.get("claimed") is False:
        na.append({"property_id": pid, "reason": (m or {}).get("reason", "check not built yet in this round (planned: see DESIGN.md section 2)")})
        continue
    checks.append(
        {
            "property_id": pid,
            "quick_cmd": f"./check {pid} quick",
            "thorough_cmd": f"./check {pid} thorough",
            "evidence_file": f"/verif/evidence/{pid}.json",
            "replay_cmd_template": f"./check {pid} --replay {{path}}",
            "engine": "zmon",
            "level_claimed": {"category": m["level"], "text": m["text"], "design_ref": f"DESIGN.md section 2, {pid}"},
            "level_note": m["note"],
            "technique": m["technique"],
        }
    )
hooks_commits = meta.get("_hook_commits", [])
man = {
    "version": 1,
    "setup_cmd": "./setup.sh",
    "hooks": {
        "guard": "ZORG_VERIF",
        "enable": "none needed: all observation is external (sys.addaudithook, sys.monitoring, SQLAlchemy engine events, subclass injection at module attributes, icontract wrappers bound by the harness, freezegun). ./check exports ZORG_VERIF=1 for uniformity; the repository contains no guarded code.",
        "baseline_off_cmd": BASE,
        "source_commits": hooks_commits,
        "add_only": True,
    },
    "engines": [
        {
            "name": "zmon",
            "path": "/verif/zmon",
            "serves_properties": [c["property_id"] for c in checks],
            "kind_free_text": "runtime monitoring: seeded hostile workload generators drive the real zorg code; boundary recorders, audit-hook effect tracer, injected ANTLR error listeners, sys.monitoring entry counters, icontract contracts and raw-sqlite quiescent-point readers observe executions; small reference models decide the recorded events offline",
        }
    ],
    "checks": checks,
    "not_applicable": na,
    "notes": "All checks are runtime monitors over executions of /repo's current working tree (PYTHONPATH=$VERIF_REPO/src). Exit 0 held / 1 VIOLATION / 2 INCONCLUSIVE. Known findings: /verif/KNOWN_FINDINGS.json (committed, read-only at run time).",
}
json.dump(man, open(os.path.join(HERE, "MANIFEST.json"), "w"), indent=1)
print("claimed:", [c["property_id"] for c in checks])
print("not_applicable:", [n["property_id"] for n in na])

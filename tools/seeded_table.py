#!/usr/bin/env python3
"""Prints the markdown table of /verif/seeded/*/meta.json (pasted into DESIGN.md section 8)."""
import glob, json, os
rows = []
for d in sorted(glob.glob("/verif/seeded/*/")):
    m = json.load(open(os.path.join(d, "meta.json")))
    sid = os.path.basename(d.rstrip("/"))
    rows.append((sid, m["property"], m["needs_to_manifest"], "missed at first; " + m["strengthening"] if m["initially_missed"] else "caught as built"))
print("| seed | needs, in order to manifest | outcome |")
print("|------|-----------------------------|---------|")
for sid, prop, needs, out in rows:
    print(f"| `{sid}` | {needs} | {out} |")
print()
print(f"{len(rows)} independent breakages, {sum(1 for r in rows if r[3].startswith('missed'))} missed at first contact (all caught after the strengthening named in the row).")

#!/bin/bash
# usage: tools/seed_eval.sh <ID> [tier] [check-ids...]
# Confirms an agent-written seeded breakage (/tmp/seeded/<ID>/{patch.diff,demo.py}) in a fresh scratch
# worktree of /repo (outside /repo and /verif): patch applies, the repository's tests pass with it, the
# demonstration fails with it and passes without it; then runs the named checks (default: <ID>) against
# the patched tree via VERIF_REPO and prints their verdicts. The worktree is removed afterwards.
ID="$1"; TIER="${2:-quick}"; shift; shift
CHECKS="${@:-$ID}"
S=/tmp/seeded/$ID
[ -d /verif/seeded/$ID ] && [ ! -f $S/patch.diff ] && S=/verif/seeded/$ID
W=/tmp/ev-$ID-$$
git -C /repo worktree add -q --detach $W HEAD || exit 3
cleanup() { git -C /repo worktree remove --force $W >/dev/null 2>&1; rm -rf $W; }
trap cleanup EXIT
echo "== demo on unchanged tree (must pass)"; /venv/bin/python $S/demo.py $W/src >/tmp/ev-$ID-base.log 2>&1; echo "rc=$?"
git -C $W apply $S/patch.diff || { echo "PATCH DOES NOT APPLY"; exit 3; }
git -C $W diff --stat | tail -3
echo "== demo on patched tree (must fail)"; /venv/bin/python $S/demo.py $W/src >/tmp/ev-$ID-mut.log 2>&1; echo "rc=$?"; tail -3 /tmp/ev-$ID-mut.log
echo "== repository tests on patched tree"; (cd $W && PYTHONPATH=$W/src /venv/bin/python -m pytest -q -p no:cacheprovider --timeout=900 2>&1 | tail -1)
for c in $CHECKS; do
  echo "== ./check $c $TIER against patched tree"
  VERIF_REPO=$W VERIF_NO_EVIDENCE=1 /verif/check $c $TIER 2>&1 | grep -E "^\[$c\] (tier|violation class|HELD)|VIOLATION|INCONCLUSIVE" | cut -c1-220 | head -8
done

#!/bin/bash
# usage: tools/run_all.sh <quick|thorough> [ids...]  — runs checks sequentially, prints rc + wall
TIER=${1:-quick}; shift
IDS=${@:-C01 C02 C03 C04 C05 C06 C07 C08 C09 C10 C11 C12 C13 C14 C15 C16 C17 C18}
for p in $IDS; do
  s=$(date +%s)
  out=$(./check $p $TIER 2>&1); rc=$?
  e=$(date +%s)
  echo "$p rc=$rc wall=$((e-s))s $(echo "$out" | grep -E '^\[' | head -1 | cut -c1-170)"
  [ $rc -ne 0 ] && echo "$out" | grep -E "VIOLATION|INCONCLUSIVE|violation class" | head -5
done

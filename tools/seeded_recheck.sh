#!/bin/bash
# usage: tools/seeded_recheck.sh [sid...]      (default: every directory under /verif/seeded)
# Re-confirms the kept seeded breakages against the CURRENT /repo HEAD (or meta.json base_commit for changes superseded by a later fix): each patch is applied to a fresh scratch
# worktree (outside /repo and /verif, removed afterwards), its demonstration must fail there, and the check(s) named
# in meta.json "caught_by" must report a VIOLATION (quick tier, VERIF_REPO=<worktree>). One line per seed:
#   <sid> apply=ok|FAIL demo=fails|PASSES caught_by=<ids that fired>/<ids named>
cd /verif
SIDS="${@:-$(ls seeded)}"
for sid in $SIDS; do
  S=/verif/seeded/$sid; W=/tmp/rc-$sid-$$
  base=$(python3 -c "import json;print(json.load(open('$S/meta.json')).get('base_commit','HEAD'))")
  git -C /repo worktree add -q --detach $W $base || { echo "$sid worktree failed"; continue; }
  if git -C $W apply $S/patch.diff 2>/dev/null; then ap=ok; else ap=FAIL; fi
  if [ $ap = ok ]; then
    /venv/bin/python $S/demo.py $W/src >/dev/null 2>&1 && dm=PASSES || dm=fails
    named=$(python3 -c "import json;print(json.load(open('$S/meta.json'))['caught_by'].replace(',',' '))")
    fired=""
    for c in $named; do
      VERIF_REPO=$W VERIF_NO_EVIDENCE=1 VERIF_REPLAY_DIR=/tmp/rc-replays-$$ ./check $c quick 2>&1 | grep -q "^VIOLATION property=$c " && fired="$fired $c"
    done
    echo "$sid base=$base apply=$ap demo=$dm caught_by=[${fired# }]/[$named]"
  else
    echo "$sid apply=$ap"
  fi
  git -C /repo worktree remove --force $W >/dev/null 2>&1; rm -rf $W
done
rm -rf /tmp/rc-replays-$$

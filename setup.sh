#!/bin/bash
# Offline setup: installs the runtime-contract library beside the repository's
# interpreter (into /verif/.deps, git-ignored).  Idempotent.
set -e
cd "$(dirname "$0")"
if [ ! -d .deps/icontract ]; then
  PIP_NO_INDEX=1 /venv/bin/pip install --quiet --no-index \
    --find-links /opt/veriftools/wheels --target .deps icontract >/dev/null 2>&1 || {
      echo "setup: icontract could not be installed (contracts will be reported inconclusive)" >&2
  }
fi
mkdir -p evidence replays
echo "setup ok"
